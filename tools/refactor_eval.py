#!/usr/bin/env python3
"""False-alarm evaluation on behaviour-preserving refactorings written by
independent sub-agents (given only the property text and a scratch worktree).

usage: tools/refactor_eval.py import <src-dir> <ID> <name>
       tools/refactor_eval.py run [--only SUBSTR] [--tier quick|thorough]

`import` confirms that the patch applies to a scratch copy of /repo, keeps
the pinned suite green and that the sub-agent's demonstration passes, and
stores it under /verif/refactors/<name>/.  `run` applies each stored
refactoring to a scratch copy and runs EVERY registered check on it; a check
that is not silent is either a false alarm (the machinery is then corrected)
or a refactoring that does break a property (recorded as such after reading
the witness).  Results: refactors/RESULTS.md.
"""
import argparse
import concurrent.futures
import json
import os
import shutil
import sys

VERIF = os.path.dirname(os.path.dirname(os.path.abspath(__file__)))
sys.path.insert(0, os.path.join(VERIF, 'selftest'))
sys.path.insert(0, os.path.join(VERIF, 'tools'))
import run as st            # noqa: E402
import seed_eval as se      # noqa: E402

STORE = os.path.join(VERIF, 'refactors')


def cmd_import(src, pid, name):
    patch = os.path.join(src, 'patch.diff')
    demo = os.path.join(src, 'demo.py')
    root, applied, why = se.patched_copy(patch)
    try:
        if not applied:
            print(name, 'patch does not apply:', why)
            return 1
        green, tail = st.run_pytest(root)
        code, out = se.run_demo(demo, root) if os.path.exists(demo) \
            else (0, '')
    finally:
        shutil.rmtree(root, ignore_errors=True)
    ok = green and code == 0
    print(f'{name}: suite_green={green} ({tail}) demo={code} -> '
          f'{"KEEP" if ok else "REJECT"}')
    if not ok:
        print(out)
        return 1
    dest = os.path.join(STORE, name)
    os.makedirs(dest, exist_ok=True)
    shutil.copy(patch, os.path.join(dest, 'patch.diff'))
    notes = os.path.join(src, 'notes.md')
    meta = {'property': pid, 'name': name,
            'source': 'independent sub-agent asked for a behaviour-preserving '
                      'rewrite, given only the property text and a scratch '
                      'worktree',
            'notes': open(notes).read()[:4000] if os.path.exists(notes)
            else '', 'suite': tail, 'checks': {}}
    with open(os.path.join(dest, 'meta.json'), 'w') as fout:
        json.dump(meta, fout, indent=1)
    return 0


def evaluate(name, tier, target_only=False):
    dest = os.path.join(STORE, name)
    meta = json.load(open(os.path.join(dest, 'meta.json')))
    root, applied, why = se.patched_copy(os.path.join(dest, 'patch.diff'))
    try:
        if not applied:
            meta['superseded'] = ('no longer applies to /repo HEAD (a later '
                                  'repair rewrote the same lines); verdict '
                                  'kept from the last tree it applied to')
            with open(os.path.join(dest, 'meta.json'), 'w') as fout:
                json.dump(meta, fout, indent=1)
            return meta
        meta.pop('superseded', None)
        checks = [c['property_id'] for c in json.load(open(os.path.join(
            VERIF, 'MANIFEST.json')))['checks']]
        if target_only:
            checks = [meta['property']]
        loud = {}
        for pid in checks:
            code, kinds, secs, out = st.run_check(pid, tier, root)
            if code != 0:
                loud[pid] = {'exit': code, 'kinds': kinds[:3],
                             'tail': out[-1500:]}
        key = 'checks' if not target_only else f'checks_{tier}_target'
        meta[key] = {'tier': tier, 'silent': sorted(
            set(checks) - set(loud)), 'not_silent': loud}
        if target_only:
            meta.setdefault('checks', {})
    finally:
        shutil.rmtree(root, ignore_errors=True)
    with open(os.path.join(dest, 'meta.json'), 'w') as fout:
        json.dump(meta, fout, indent=1)
    return meta


def cmd_run(only, tier, jobs, target_only=False):
    names = sorted(n for n in os.listdir(STORE)
                   if os.path.isdir(os.path.join(STORE, n)) and only in n)
    rows = []
    with concurrent.futures.ThreadPoolExecutor(jobs) as pool:
        for meta in pool.map(lambda n: evaluate(n, tier, target_only),
                             names):
            rows.append(meta)
            shown = meta.get(f'checks_{tier}_target') if target_only \
                else meta['checks']
            loud = shown.get('not_silent', shown)
            print(f"{meta['name']:10s} {meta['property']} not_silent="
                  f"{ {k: v['kinds'] for k, v in loud.items()} if isinstance(loud, dict) and loud and 'error' not in loud else loud}",
                  flush=True)
    if not only and not target_only:
        with open(os.path.join(STORE, 'RESULTS.md'), 'w') as fout:
            fout.write('# Behaviour-preserving refactorings (from independent '
                       'sub-agents) vs. all checks\n\n| refactoring | written '
                       'for | checks not silent | verdict |\n|---|---|---|---|'
                       '\n')
            for m in rows:
                loud = m['checks'].get('not_silent', {})
                fout.write(f"| {m['name']} | {m['property']} | "
                           f"{ {k: v['kinds'] for k, v in loud.items()} or 'none'} | "
                           f"{m.get('verdict', 'all silent' if not loud else 'TO ANALYSE')}"
                           f"{' (superseded: last tree it applied to)' if m.get('superseded') else ''} |\n")
    print(sum(1 for m in rows if m['checks'].get('not_silent')),
          'of', len(rows), 'refactorings made some check speak')


def main():
    ap = argparse.ArgumentParser()
    sub = ap.add_subparsers(dest='cmd')
    imp = sub.add_parser('import')
    imp.add_argument('src')
    imp.add_argument('id')
    imp.add_argument('name')
    run = sub.add_parser('run')
    run.add_argument('--only', default='')
    run.add_argument('--tier', default='quick')
    run.add_argument('--jobs', type=int, default=4)
    run.add_argument('--target-only', action='store_true')
    args = ap.parse_args()
    if args.cmd == 'import':
        return cmd_import(args.src, args.id.upper(), args.name)
    return cmd_run(args.only, args.tier, args.jobs, args.target_only)


if __name__ == '__main__':
    sys.exit(main())
