#!/bin/sh
# run every registered thorough check one after the other (each shards over 16 workers)
cd "$(dirname "$0")/.."
seed="${1:-0}"
ids=$(python3 -c "import json;print(' '.join(c['property_id'] for c in json.load(open('MANIFEST.json'))['checks']))")
for id in $ids; do
  ./check $id --tier thorough --seed $seed --no-evidence > /tmp/vf-thorough-$id-s$seed.log 2>&1
  echo "$id exit=$? $(tail -1 /tmp/vf-thorough-$id-s$seed.log)"
done
