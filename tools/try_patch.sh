#!/bin/sh
# usage: tools/try_patch.sh <patch.diff> <ID> [tier]  -- run one check on a scratch copy with the patch, show witnesses
p="$(realpath "$1")"; id="$2"; tier="${3:-quick}"
d=$(mktemp -d /tmp/vf-try-XXXXXX)
cp -r /repo/desper "$d/"
(cd "$d" && patch -p1 --no-backup-if-mismatch < "$p" >/dev/null) || { echo "patch failed"; rm -rf "$d"; exit 2; }
cd "$(dirname "$0")/.."
DESPER_ROOT="$d" VF_REPLAY_DIR="$d/rep" ./check "$id" --tier "$tier" --no-evidence | grep -v '^  (case' | tail -12
python3 - "$d/rep" <<'PY'
import json,glob,sys
for f in sorted(glob.glob(sys.argv[1]+'/*.json'))[:4]:
    d=json.load(open(f)); print('---', d['divergence']['kind']); print(json.dumps(d['case'])[:1500]); print({k:v for k,v in d['divergence'].items() if k not in ('kind',)})
PY
rm -rf "$d"
