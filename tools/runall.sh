#!/bin/sh
# run every registered quick (or $1) check in parallel, report exit codes
tier="${1:-quick}"
cd "$(dirname "$0")/.."
ids=$(python3 -c "import json;print(' '.join(c['property_id'] for c in json.load(open('MANIFEST.json'))['checks']))")
mkdir -p /tmp/vf-runall
for id in $ids; do
  ( ./check $id --tier $tier > /tmp/vf-runall/$id.log 2>&1; echo "$id exit=$? $(tail -1 /tmp/vf-runall/$id.log)" ) &
done
wait
