#!/usr/bin/env python3
"""Evaluate breaking changes written by independent sub-agents.

usage: tools/seed_eval.py import <src-dir> <ID> <name>   # confirm + store
       tools/seed_eval.py run [--only SUBSTR] [--all-checks]

`import` confirms, on a scratch copy of /repo outside /repo and /verif, that
the patch applies, the pinned suite stays green with it, the demonstration
fails with it and passes without it, and then stores patch.diff, the
demonstration and meta.json under /verif/seeded/<name>/.
`run` applies every stored change to a scratch copy and runs the target
property's quick check (thorough if quick is silent; with --all-checks every
other quick check too), updating meta.json and seeded/RESULTS.md.
"""
import argparse
import concurrent.futures
import json
import os
import shutil
import subprocess
import sys

VERIF = os.path.dirname(os.path.dirname(os.path.abspath(__file__)))
sys.path.insert(0, os.path.join(VERIF, 'selftest'))
import run as st        # noqa: E402

SEEDED = os.path.join(VERIF, 'seeded')


def _apply(root, patch):
    proc = subprocess.run(['patch', '-p1', '--no-backup-if-mismatch'],
                          cwd=root, input=open(patch).read(),
                          capture_output=True, text=True)
    return proc.returncode == 0, proc.stdout[-300:]


def base_copy(commit):
    import tempfile
    root = tempfile.mkdtemp(prefix='vf-selftest-')
    tar = subprocess.run(['git', '-C', st.REPO, 'archive', commit, 'desper',
                          'tests'], capture_output=True)
    subprocess.run(['tar', '-x', '-C', root], input=tar.stdout, check=True)
    return root


# trees the stored patches were written against (round 9 / round 6 /
# rounds 4-5 / rounds 2-3)
PORT_BASES = ['23c04b6', '9f3f77f', 'aad6aa0', 'd877b03']


def _git(root, *args, **kw):
    return subprocess.run(['git', '-C', root, '-c', 'user.name=verif', '-c',
                           'user.email=verif@localhost', *args],
                          capture_output=True, text=True, **kw)


def ported_copy(patch):
    """The patch no longer applies textually to the current tree (a later
    repair touched the same lines): commit it on the tree it was written
    against and let git replay that one commit on the current HEAD (3-way
    merge). Conflicts mean the change is superseded by a repair."""
    import tempfile
    head = subprocess.run(['git', '-C', st.REPO, 'rev-parse', 'HEAD'],
                          capture_output=True, text=True).stdout.strip()
    why = ''
    for base in PORT_BASES:
        root = tempfile.mkdtemp(prefix='vf-selftest-')
        subprocess.run(['git', 'clone', '-q', '-s', st.REPO, root],
                       check=True)
        _git(root, 'checkout', '-q', '-b', 'port', base)
        ok, why = _apply(root, patch)
        if ok:
            _git(root, 'add', '-A')
            _git(root, 'commit', '-q', '-m', 'stored change')
            proc = _git(root, 'rebase', '--onto', head, base, 'port')
            if proc.returncode == 0:
                shutil.rmtree(os.path.join(root, '.git'), ignore_errors=True)
                return root, True, f'(ported from {base} by git rebase) '
            why = 'conflicts with a later repair: ' + (
                proc.stdout + proc.stderr)[-200:]
        shutil.rmtree(root, ignore_errors=True)
    return None, False, why


def patched_copy(patch):
    """Scratch copy of the CURRENT tree with the patch applied; when a later
    repair in /repo touched the same lines and the patch no longer applies,
    it is ported with git (see ported_copy)."""
    root = st.make_copy()
    ok, why = _apply(root, patch)
    if ok:
        return root, True, ''
    shutil.rmtree(root, ignore_errors=True)
    root, ok, why2 = ported_copy(patch)
    if ok:
        return root, True, why2
    import tempfile
    return tempfile.mkdtemp(prefix='vf-selftest-'), False, why + ' / ' + why2


def run_demo(demo, root):
    proc = subprocess.run([st.PY, demo], capture_output=True, text=True,
                          timeout=120, cwd=os.path.dirname(demo),
                          env=dict(os.environ, PYTHONPATH=root,
                                   PYTHONDONTWRITEBYTECODE='1'))
    return proc.returncode, (proc.stdout + proc.stderr)[-400:]


def cmd_import(src, pid, name):
    patch = os.path.join(src, 'patch.diff')
    demo = os.path.join(src, 'demo.py')
    root, applied, why = patched_copy(patch)
    try:
        if not applied:
            print('patch does not apply:', why)
            return 1
        green, tail = st.run_pytest(root)
        bad_code, bad_out = run_demo(demo, root)
        good_code, good_out = run_demo(demo, st.REPO)
    finally:
        shutil.rmtree(root, ignore_errors=True)
    ok = green and bad_code != 0 and good_code == 0
    print(f'{name}: suite_green={green} ({tail}) demo_with_change={bad_code} '
          f'demo_without={good_code} -> {"KEEP" if ok else "REJECT"}')
    if not ok:
        print(bad_out, good_out)
        return 1
    dest = os.path.join(SEEDED, name)
    os.makedirs(dest, exist_ok=True)
    shutil.copy(patch, os.path.join(dest, 'patch.diff'))
    shutil.copy(demo, os.path.join(dest, 'demo.py'))
    notes = os.path.join(src, 'notes.md')
    needs = open(notes).read() if os.path.exists(notes) else ''
    meta = {'property': pid, 'name': name,
            'source': 'independent sub-agent given only the property text '
                      'and a scratch worktree',
            'needs_to_manifest': needs[:3000],
            'confirmed': {
                'suite_green_with_change': green, 'suite': tail,
                'demo_exit_with_change': bad_code,
                'demo_exit_without_change': good_code,
                'demo_output_with_change': bad_out[-300:],
                'how': 'scratch copy of /repo (desper+tests), patch -p1, '
                       'pytest -q tests, PYTHONPATH=<copy> python demo.py; '
                       'copy removed afterwards'},
            'checks': {}}
    with open(os.path.join(dest, 'meta.json'), 'w') as fout:
        json.dump(meta, fout, indent=1)
    return 0


def evaluate(name, all_checks):
    dest = os.path.join(SEEDED, name)
    meta = json.load(open(os.path.join(dest, 'meta.json')))
    root, applied, why = patched_copy(os.path.join(dest, 'patch.diff'))
    try:
        if not applied:
            # superseded: a later repair of /repo rewrote the lines this
            # change edits; the verdict obtained on the last tree it applied
            # to is kept
            meta['superseded'] = ('no longer applies to /repo HEAD (a later '
                                  'repair rewrote the same lines); verdict '
                                  'kept from the last tree it applied to')
            with open(os.path.join(dest, 'meta.json'), 'w') as fout:
                json.dump(meta, fout, indent=1)
            return meta
        meta.pop('superseded', None)
        meta.pop('neutralised', None)
        demo = os.path.join(dest, 'demo.py')
        if os.path.exists(demo) and run_demo(demo, root)[0] == 0:
            # the patch still applies, but its own demonstration passes: a
            # later repair of /repo removed the code path it relied on
            meta['neutralised'] = ('applies to /repo HEAD but no longer '
                                   'breaks the property there (its own '
                                   'demonstration passes); verdict kept from '
                                   'the last tree on which it did')
            with open(os.path.join(dest, 'meta.json'), 'w') as fout:
                json.dump(meta, fout, indent=1)
            return meta
        pid = meta['property']
        results = {}
        caught = None
        code, kinds, secs, out = st.run_check(pid, 'quick', root)
        results[f'{pid} quick'] = {'exit': code, 'kinds': kinds[:3],
                                   'seconds': round(secs, 1)}
        if code == 1:
            caught = f'{pid} quick'
        elif os.environ.get('VF_EVAL_SKIP_THOROUGH'):
            pass        # (time-boxed pass: own quick, then the other quicks)
        else:
            code, kinds, secs, out = st.run_check(pid, 'thorough', root)
            results[f'{pid} thorough'] = {'exit': code, 'kinds': kinds[:3],
                                          'seconds': round(secs, 1)}
            if code == 1:
                caught = f'{pid} thorough'
        if all_checks or caught is None:
            checks = [c['property_id'] for c in json.load(open(os.path.join(
                VERIF, 'MANIFEST.json')))['checks'] if c['property_id'] != pid]
            for other in checks:
                code, kinds, secs, out = st.run_check(other, 'quick', root)
                if code != 0:
                    results[f'{other} quick'] = {'exit': code,
                                                 'kinds': kinds[:3],
                                                 'seconds': round(secs, 1)}
                    if code == 1 and caught is None:
                        caught = f'{other} quick'
        meta['checks'] = results
        meta['caught_by'] = caught
    finally:
        shutil.rmtree(root, ignore_errors=True)
    with open(os.path.join(dest, 'meta.json'), 'w') as fout:
        json.dump(meta, fout, indent=1)
    return meta


def cmd_run(only, all_checks, jobs):
    names = sorted(n for n in os.listdir(SEEDED)
                   if os.path.isdir(os.path.join(SEEDED, n)) and only in n)
    rows = []
    with concurrent.futures.ThreadPoolExecutor(jobs) as pool:
        for meta in pool.map(lambda n: evaluate(n, all_checks), names):
            rows.append(meta)
            print(f"{meta['name']:12s} {meta['property']} caught_by="
                  f"{meta.get('caught_by')} "
                  f"{'SUPERSEDED' if meta.get('superseded') else 'NEUTRALISED' if meta.get('neutralised') else meta['checks']}",
                  flush=True)
    if not only:
        with open(os.path.join(SEEDED, 'RESULTS.md'), 'w') as fout:
            fout.write('# Seeded breaking changes (from independent '
                       'sub-agents) vs. the checks\n\n| change | property | '
                       'detected by | divergence kinds | applies to HEAD |\n'
                       '|---|---|---|---|---|\n')
            for m in rows:
                hit = m.get('caught_by')
                kinds = m['checks'].get(hit, {}).get('kinds') if hit else ''
                fout.write(f"| {m['name']} | {m['property']} | "
                           f"{hit or 'MISSED'} | {kinds} | "
                           f"{'no (superseded by a repair)' if m.get('superseded') else 'yes, but neutralised by a repair' if m.get('neutralised') else 'yes'} |\n")
    missed = [m['name'] for m in rows if not m.get('caught_by')]
    print(f'{len(rows)} seeded changes, {len(missed)} missed: {missed}')


def main():
    ap = argparse.ArgumentParser()
    sub = ap.add_subparsers(dest='cmd')
    imp = sub.add_parser('import')
    imp.add_argument('src')
    imp.add_argument('id')
    imp.add_argument('name')
    run = sub.add_parser('run')
    run.add_argument('--only', default='')
    run.add_argument('--all-checks', action='store_true')
    run.add_argument('--jobs', type=int, default=6)
    args = ap.parse_args()
    if args.cmd == 'import':
        return cmd_import(args.src, args.id.upper(), args.name)
    return cmd_run(args.only, args.all_checks, args.jobs)


if __name__ == '__main__':
    sys.exit(main())
