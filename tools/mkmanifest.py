#!/usr/bin/env python3
"""Regenerate /verif/MANIFEST.json from the property modules that exist and
are listed in vf/registry.py, and validate it against the schema."""
import importlib
import json
import os
import sys

VERIF = os.path.dirname(os.path.dirname(os.path.abspath(__file__)))
sys.path.insert(0, VERIF)
from vf import registry     # noqa: E402

ALL = [f'C{n:02d}' for n in range(1, 21)]


def main():
    checks = []
    not_applicable = []
    for pid in ALL:
        entry = registry.READY.get(pid)
        if entry is None:
            not_applicable.append({
                'property_id': pid,
                'reason': registry.PENDING.get(
                    pid, 'monitor not registered yet (under construction); '
                    'the property is addressable by runtime monitoring, see '
                    'DESIGN.md section 3')})
            continue
        mod = importlib.import_module(f'vf.props.{pid.lower()}')
        checks.append({
            'property_id': pid,
            'quick_cmd': f'./check {pid} --tier quick',
            'thorough_cmd': f'./check {pid} --tier thorough',
            'evidence_file': f'evidence/{pid}.json',
            'replay_cmd_template': f'./check {pid} --replay {{path}}',
            'engine': 'vf',
            'level_claimed': {'category': mod.LEVEL, 'text': entry['text'],
                              'design_ref': f'DESIGN.md section 3/{pid}'},
            'level_note': entry['note'],
            'technique': entry['technique'],
        })
    manifest = {
        'version': 1,
        'setup_cmd': 'mkdir -p evidence replays',
        'hooks': {
            'guard': 'DESPER_VERIF',
            'enable': ('no source hooks: every monitor observes desper from '
                       'outside (subclasses, harness-defined handlers, '
                       'sys.monitoring, coverage); checks import the current '
                       'working tree through DESPER_ROOT (default /repo)'),
            'baseline_off_cmd': ('cd /repo && /venv/bin/python -m pytest -ra -q '
                                 '-p no:cacheprovider --timeout=900 '
                                 '--continue-on-collection-errors'),
            'source_commits': [],
            'add_only': True,
        },
        'engines': [{
            'name': 'vf', 'path': 'vf/',
            'serves_properties': [c['property_id'] for c in checks],
            'kind_free_text': (
                'runtime monitoring: generated workloads drive the real desper '
                'code; monitors at the public API boundary record operations, '
                'callbacks and query sweeps; an executable reference model / '
                'trace checker decides every observation; coverage gives reach '
                'evidence; sys.monitoring gives logical step budgets'),
        }],
        'checks': checks,
        'not_applicable': not_applicable,
        'notes': registry.NOTES,
    }
    path = os.path.join(VERIF, 'MANIFEST.json')
    with open(path, 'w') as fout:
        json.dump(manifest, fout, indent=1)
        fout.write('\n')
    try:
        import jsonschema
        with open('/root/.vp/MANIFEST.schema.json') as fin:
            jsonschema.validate(manifest, json.load(fin))
        print('MANIFEST.json valid:', len(checks), 'checks,',
              len(not_applicable), 'not claimed')
    except ImportError:
        print('MANIFEST.json written (jsonschema not available here)')


if __name__ == '__main__':
    main()
