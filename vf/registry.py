"""Which property checks are registered in MANIFEST.json, with the claims
made for each.  tools/mkmanifest.py turns this into MANIFEST.json."""

NOTES = ('One technique family throughout: runtime monitoring of the real code '
         'under generated workloads with executable oracles (DESIGN.md). '
         'Verdicts are "held on the executions observed". Known findings are '
         'matched by mechanism (known_findings.json).')

_TB = ('Trusted: the reference model/oracle in vf/props (written from the '
       'property statement), CPython 3.12 semantics (reference counting, '
       'single thread), coverage.py for reach evidence. Holds only for the '
       'executions generated; bounds are in the evidence file.')

def _e(text, technique, note=None):
    return {'text': text, 'technique': technique, 'note': note or _TB}


READY = {
    'C01': _e('Full query sweep of the World after EVERY operation of random '
              'histories, compared with a dict-based reference model (multiset '
              'equality for get/get_components, exact-type priority, '
              'entities/entity_exists, automatic-id freshness). Exploration: '
              'thousands of histories, ~10^6 query comparisons per quick run.',
              'history + executable reference model, query sweep at every '
              'quiescent point'),
    'C02': _e('Every lifecycle callback is logged with instance, entity, world '
              'and the dispatch flag at call time; after every operation the '
              "operation's log slice must equal the model's attach/detach "
              'transitions (or re-appear, grouped in operation order, at the '
              'enabling assignment); is_handler == attached for every instance '
              'ever created; probe events reach exactly the attached '
              'listeners.',
              'callback log (uniquely labelled instances) checked online '
              'against a reference model; exactly-once / ordering oracle'),
    'C03': _e('Every generated handler method logs (defining class, receiver, '
              'argument identities, dispatch-call id); per dispatch call '
              '(nested ones too) the receivers must be exactly the handlers '
              'registered when it was made, once each, through the function '
              'the harness-derived mapping names; __events__ of bases '
              'snapshotted and re-compared.',
              'delivery log with unique argument tokens + registry model; '
              'exactly-once oracle per dispatch call'),
    'C04': _e('Fault enumeration: for every small base script every callback '
              'position of the release x 7 fault kinds (raise incl. Quit/'
              'SwitchWorld, nested disable, re-entrant dispatch, handler '
              'add/remove), then further cycles; trace oracle for exactly-'
              'once, order, nothing left pending; termination decided as '
              'bounded progress by a sys.monitoring step budget.',
              'fault injection at every delivery position + offline trace '
              'checker + logical step budget (sys.monitoring)'),
    'C05': _e('Histories dense in delete_entity followed by every other '
              'operation on the same id; one log interleaves lifecycle '
              'callbacks and processor calls; query sweep after every '
              'operation; injected processor fault and never-existed-id '
              'sub-workload for the recovery clause.',
              'history + reference model, ordering oracle over one '
              'interleaved callback/processor log, fault injection'),
    'C06': _e('All class DAGs with <=4 classes (exhaustive over ordered base '
              'tuples) plus random DAGs up to 9 classes, as components and as '
              'processors; every query method issued for every class of the '
              'DAG and compared with the issubclass-defined expectation '
              '(multiplicity, exact-type priority, exactly-one removal on '
              'rebuilt copies).',
              'differential oracle (issubclass) over enumerated/random class '
              'DAGs; before/after state comparison for removals'),
    'C07': _e('Per-frame log of (processor, dt); processors/get_processor/'
              'p.world/lifecycle log read after every operation; oracle = '
              'stable sort on (priority, insertion sequence) kept by the '
              'harness, one processor per exact type, explicit priority '
              'overrides class default.',
              'call log + reference list model checked after every operation'),
    'C08': _e('Every coroutine step logs (frame, coroutine, step); oracle is a '
              'per-coroutine elapsed-time counter in exact Fractions (no '
              'shared timer): wake-up frame exact, one step per runnable '
              'coroutine per frame, stable relative order.',
              'step log + per-coroutine exact clock model (schedule oracle)'),
    'C09': _e('Lifecycle automaton per generator; calls from outside are '
              'predicted, frames are decided by a trace checker replaying the '
              'observed step/act log (operations issued from inside bodies); '
              'state and promise read after every call; release sub-workload '
              'with weak references + gc.collect().',
              'online trace checker over step/act log + automaton; weakref '
              'liveness probes'),
    'C10': _e('Fault enumeration over every point where the last strong '
              'reference to a handler can be dropped (between operations and '
              'inside callback i of a dispatch) under steered listener '
              'iteration orders (__hash__), for dispatcher-, component- and '
              'processor-owned handlers; oracle: no None receiver, exactly-'
              'once to survivors, weakref dead after gc.',
              'reference-drop fault injection at every callback position + '
              'weakref liveness + delivery log'),
    'C11': _e('After every operation of random __setitem__/clear histories '
              '(composite keys, kind overwrites, populator-style layering) the '
              'three access forms are compared for every path of a nested-dict '
              'model, back-links of every reachable node, name exclusivity '
              'over all ChainMap layers, visible-name sets and the get/[] '
              'contract on absent and too-long paths.',
              'history + nested-dict reference model, structural walk of the '
              'live tree at every quiescent point'),
    'C12': _e('Counting handles with fresh-object-per-load values (incl. '
              'falsy/hostile ones); `cached` read before every access '
              'predicts whether the load counter moves; identity of the '
              'returned object within an epoch; all access paths incl. static '
              'maps and Loop.switch clear flags.',
              'load counters + identity oracle per access, epoch model'),
    'C13': _e('One log of process/callback/request entries over scripted '
              'switch sequences (all scripts of <=2 requests over 2 handles '
              'enumerated); trace checker for frame abandonment, which '
              'instance runs, freshness under clear flags, on_switch_out/in '
              'exactly-once and ordering, held events of left worlds.',
              'offline trace checker over one labelled event log; '
              'enumeration of small switch scripts'),
    'C14': _e('Fault enumeration over every (iteration, processor) position '
              'of small frame scripts x terminating fault kinds x optional '
              'earlier switch x restarts; dt recomputed exactly from the '
              "clock's own read log; loop state read after every start.",
              'fault injection at every frame position + exact recomputation '
              'from the recorded clock reads'),
    'C15': _e('Recorder classes log every construction by identity/value; '
              'generated descriptions (both entry points, handle stored under '
              'plain and composite keys) are interpreted independently and '
              'compared with the loaded world, its processors order, argument '
              'substitution and the load-time lifecycle order.',
              'recorder fixtures + independent interpreter of the '
              'description (differential oracle)'),
    'C16': _e('Real temporary directory trees; independent os.walk oracle; '
              'after every population reachability, factory arguments, '
              'sub-map structure, absence of unexpected keys over all '
              'ChainMap layers and the nest/replace conflict rule are '
              'checked; ValueError / skip for bad rule paths.',
              'differential oracle (os.walk) + structural walk of the '
              'populated map, recorder factory'),
    'C17': _e('The live ResourceMap is the oracle for its snapshot: identity '
              'of loaded resources and handles for every path through item / '
              'attribute / get access, equal name sets, absent names raise, '
              'every setattr/delattr attempt on every node raises and the '
              'comparison is repeated afterwards.',
              'mirror (differential) oracle + mutation attempts on every '
              'node'),
    'C18': _e('Randomised identity testing of the real operators on exact '
              'rationals against nested-loop textbook definitions with a '
              'Schwartz-Zippel error bound per identity, exhaustive swizzles, '
              'region-targeted sampling of limit/clamp/singular branch, float '
              'tier with stated tolerance. Sampling with a quantified bound, '
              'not the polynomial-identity proof the quantifier mentions.',
              'exact-arithmetic differential testing (Fractions through the '
              'unmodified classes) + exhaustive swizzle enumeration'),
    'C19': _e('Twin-world differential run (World calls vs every shorthand '
              'form and controller kind) with label-wise comparison of return '
              'values, full query sweeps and lifecycle logs after every step; '
              'prototype source priority over all source subsets for small '
              'n; OnUpdateProcessor relay with identity of dt.',
              'twin-world differential monitor; enumerated prototype source '
              'combinations'),
    'C20': _e('Monitors every listener notification and reads all properties '
              'of all transforms back after every assignment; oracle = '
              'exactly-once per matching listener, value == read-back, exact '
              'modulo-360 reduction.',
              'listener log + read-back oracle after every assignment'),
}

PENDING = {}
