"""Which property checks are registered in MANIFEST.json, with the claims
made for each.  tools/mkmanifest.py turns this into MANIFEST.json."""

NOTES = ('One technique family throughout: runtime monitoring of the real code '
         'under generated workloads with executable oracles (DESIGN.md). '
         'Verdicts are "held on the executions observed". Known findings are '
         'matched by mechanism (known_findings.json).')

_TB = ('Trusted: the reference model/oracle in vf/props (written from the '
       'property statement), CPython 3.12 semantics (reference counting, '
       'single thread), coverage.py for reach evidence. Holds only for the '
       'executions generated; bounds are in the evidence file.')

READY = {
    'C20': {
        'text': ('Monitors every listener notification and reads all '
                 'properties of all transforms back after every assignment; '
                 'oracle = exactly-once per matching listener, value == '
                 'read-back, exact modulo-360 reduction. Exploration over '
                 'thousands of random assignment sequences.'),
        'note': _TB,
        'technique': 'runtime monitor: listener log + read-back oracle after '
                     'every assignment',
    },
}

PENDING = {}
