"""Runtime-monitoring framework for the desper properties C01-C20.

See /verif/DESIGN.md.  Everything here *executes the real desper code* from
``DESPER_ROOT`` (default /repo) under generated workloads and decides each
observation with an executable oracle.
"""
import os
import sys

DESPER_ROOT = os.path.abspath(os.environ.get('DESPER_ROOT', '/repo'))


def import_desper():
    """Import desper from DESPER_ROOT (the current working tree), never from
    an installed copy, and return the package."""
    if sys.path[0] != DESPER_ROOT:
        sys.path.insert(0, DESPER_ROOT)
    import desper
    origin = os.path.abspath(desper.__file__)
    if not origin.startswith(DESPER_ROOT + os.sep):
        raise RuntimeError(
            f'desper imported from {origin}, expected under {DESPER_ROOT}')
    return desper
