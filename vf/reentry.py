"""Re-entrancy scenarios for the World lifecycle (shared by C02 and C05).

One entity E owns 2-4 handler components; some operation detaches them (the
deferred flush of process(), an immediate deletion, a removal, a replacement,
clear()) and, from inside the on_remove of one of them (the *actor*), the
program touches the world again: it removes siblings, adds components,
deletes E or another entity, creates entities, clears the world - or raises.
Which sibling is notified first is not stated anywhere, so the oracle is
order-free and judged at quiescent points only:

* the outer operation completes (or propagates exactly the injected fault),
* per component the callbacks alternate on_add, on_remove, on_add, ... and
  end in agreement with whether the component is attached now,
* every callback carries the owner the component really had, and the world,
* a component is a listener of the world exactly while it is attached,
* all queries tell the same story (type index vs. entity rows),
* after an injected fault the next frames complete and E can still be
  deleted for good.
"""
import collections

from vf import import_desper
from vf.core import Res, HarnessError

OUTERS = ['flush', 'flush', 'flush_multi', 'immediate', 'remove', 'replace',
          'clear']
ACTIONS = ['respawn_same_id', 'add_same_type', 'proc_spawns', 'readd_self', 'remove_sibling', 'remove_all_siblings', 'add_new',
           'delete_self_imm', 'delete_self_def', 'delete_other_imm',
           'delete_other_def', 'create_other', 'clear', 'nop']


def gen(rng, outers=OUTERS, fault_rate=0.25):
    ncomp = rng.randint(2, 4)
    order = list(range(ncomp))
    rng.shuffle(order)
    outer = rng.choice(outers)
    action = rng.choice(ACTIONS)
    fault = rng.random() < fault_rate
    if fault:
        action = rng.choice(['nop', 'nop', 'remove_sibling'])
    return {'scenario': 'reentry', 'ncomp': ncomp, 'order': order,
            'bystanders': [rng.randint(1, 2)
                           for _ in range(rng.randint(1, 2))],
            'outer': outer, 'actor': rng.randrange(ncomp), 'action': action,
            'fault': fault, 'custom_id': rng.random() < 0.5,
            'procs': rng.randint(0, 2), 'frames': rng.randint(2, 3),
            'act_before_fault': fault and rng.random() < 0.5,
            'respawn_delete': rng.random() < 0.5,
            # whether the program deletes the entity again in later frames
            # (a deferred deletion must not need that, even when the frame
            # that applied it failed half way)
            'reaper': rng.random() < 0.5}


def run(case):
    desper = import_desper()
    res = Res()
    w = desper.World()
    log = []                    # (uid, kind, entity, world_ok)
    comps = {}                  # uid -> component
    owner = {}                  # uid -> entity the harness attached it to
    state = {'acted': False, 'fault': None, 'n': 0, 'procs_run': []}
    bad_args = []

    def on_add(self, entity, world):
        log.append((self.uid, 'add'))
        if owner.get(self.uid) == '?':
            owner[self.uid] = entity        # automatic id, learnt here
        if world is not w or entity != owner.get(self.uid, entity):
            bad_args.append((self.uid, 'add', entity))

    def on_remove(self, entity, world):
        log.append((self.uid, 'remove'))
        if world is not w or entity != owner.get(self.uid, entity):
            bad_args.append((self.uid, 'remove', entity))
        if self.uid == actor_uid and not state['acted']:
            state['acted'] = True
            if case['fault'] and not case.get('act_before_fault'):
                state['fault'] = HarnessError('fault in on_remove')
                raise state['fault']
            act()
            if case['fault']:
                state['fault'] = HarnessError('fault in on_remove')
                raise state['fault']

    def ping(self, token):
        pings.append(self.uid)

    def make(tag):
        ns = {'on_add': on_add, 'on_remove': on_remove, 'ping': ping}
        return desper.event_handler('on_add', 'on_remove', 'ping')(
            type(f'R{tag}', (), ns))

    def new(cls):
        c = cls()
        c.uid = state['n']
        state['n'] += 1
        comps[c.uid] = c
        return c

    classes = [make(i) for i in range(case['ncomp'])]
    extra_cls = make('x')
    other_cls = [make(f'o{i}') for i in range(2)]
    pings = []

    for i in range(case['procs']):
        def process(self_, dt=1, _i=i):
            state['procs_run'].append(_i)
        w.add_processor(type(f'RP{i}', (desper.Processor,),
                             {'process': process})())

    if case['action'] == 'proc_spawns':
        def p_on_remove(self_):
            res.tags['action_run'].add(f"{case['outer']}/proc_spawns")
            c = new(extra_cls)
            owner[c.uid] = '?'
            w.create_entity(c)
        w.add_processor(desper.event_handler('on_remove')(type(
            'SpawningProc', (desper.Processor,),
            {'process': lambda self_, dt=1: None,
             'on_remove': p_on_remove}))())

    # ---- build
    mine = [new(classes[i]) for i in case['order']]
    E = 'E' if case['custom_id'] else None
    for c in mine:
        owner[c.uid] = E if E is not None else '?'
    if E is None:
        E = w.create_entity(*mine)
        for c in mine:
            owner[c.uid] = E
    else:
        w.create_entity(*mine, entity_id=E)
    actor = next(c for c in mine if type(c) is classes[case['actor']])
    actor_uid = actor.uid
    siblings = [c for c in mine if c is not actor]
    others = []
    for n in case['bystanders']:
        cs = [new(other_cls[j]) for j in range(n)]
        ent = w.create_entity(*cs)
        for c in cs:
            owner[c.uid] = ent
        others.append(ent)

    def act():
        a = case['action']
        res.tags['action_run'].add(f"{case['outer']}/{a}")
        if a == 'respawn_same_id':
            # "restart": what is left of the entity goes at once and a new
            # entity with components of the same types takes over its id
            if outer in ('flush', 'flush_multi', 'immediate') \
                    and case['custom_id']:
                if w.get_components(E):
                    w.delete_entity(E, immediate=True)
                fresh = [new(type(s)) for s in siblings]
                for c in fresh:
                    owner[c.uid] = E
                    respawned.append(c.uid)
                if fresh:
                    w.create_entity(*fresh, entity_id=E)
                    if case.get('respawn_delete'):
                        # ... and the new entity is at once asked to go at
                        # the next frame (its own, new, deferred deletion)
                        w.delete_entity(E)
                        state['respawn_deleted'] = True
        elif a == 'add_same_type':
            # a component of the actor's own type is attached again to E
            # (during a replacement: while the incoming one is on its way)
            if outer in ('replace', 'remove'):
                c = new(type(actor))
                owner[c.uid] = E
                w.add_component(E, c)
        elif a == 'proc_spawns':
            pass        # acted by the processor below, not by the component
        elif a == 'readd_self':
            # the component attaches itself to another entity (a pickup
            # changing hands) from inside its own on_remove
            dest = others[0] if w.get_components(others[0]) else others[-1]
            if w.get_components(dest):
                owner[actor_uid] = dest
                w.add_component(dest, actor)
        elif a == 'remove_sibling':
            w.remove_component(E, type(siblings[0]))
        elif a == 'remove_all_siblings':
            for s in siblings:
                w.remove_component(E, type(s))
        elif a == 'add_new':
            c = new(extra_cls)
            owner[c.uid] = E
            w.add_component(E, c)
        elif a == 'delete_self_imm':
            if w.get_components(E):     # documented KeyError otherwise
                w.delete_entity(E, immediate=True)
        elif a == 'delete_self_def':
            if w.entity_exists(E):
                w.delete_entity(E)
        elif a == 'delete_other_imm':
            if w.get_components(others[0]):
                w.delete_entity(others[0], immediate=True)
        elif a == 'delete_other_def':
            if w.entity_exists(others[0]):
                w.delete_entity(others[0])
        elif a == 'create_other':
            c = new(extra_cls)
            owner[c.uid] = '?'
            owner[c.uid] = w.create_entity(c)
        elif a == 'clear':
            w.clear()

    respawned = []      # components of a new entity created under E's id

    def sweep(at):
        """All queries tell the same story; listeners == attached."""
        try:
            ids = set(w.entities) | {E} | set(others) \
                | {e for e in owner.values() if e != '?'}
            attached = {}
            for e in ids:
                for c in w.get_components(e):
                    attached[c.uid] = e
            for cls in classes + [extra_cls] + other_cls:
                got = sorted((repr(e), c.uid) for e, c in w.get(cls))
                want = sorted((repr(e), uid) for uid, e in attached.items()
                              if type(comps[uid]) is cls)
                res.stats['query_comparisons'] += 1
                if got != want:
                    res.div(at, 'reentry-queries-disagree',
                            f'get({cls.__name__}) differs from the rows '
                            'reported by get_components', want, got)
                    return None
            for uid, e in attached.items():
                c = comps[uid]
                if not w.has_component(e, type(c)) \
                        or w.get_component(e, type(c)) is not c:
                    res.div(at, 'reentry-queries-disagree',
                            'has_component/get_component differ from '
                            'get_components', uid, None)
                    return None
            return attached
        except Exception as ex:
            res.div(at, 'reentry-query-raised', 'a query raised at a '
                    'quiescent point', 'no exception', repr(ex))
            return None

    def judge_components(at, attached, tolerate=()):
        for uid, c in comps.items():
            seq = [k for u, k in log if u == uid]
            good = all(k == ('add' if i % 2 == 0 else 'remove')
                       for i, k in enumerate(seq))
            res.stats['callback_sequences_checked'] += 1
            if not good:
                res.div(at, 'reentry-callbacks-not-alternating',
                        f'component {uid} ({type(c).__name__}) received '
                        'on_add/on_remove out of turn',
                        'add, remove, add, ... once per attach/detach', seq)
                return False
            want_last = 'add' if uid in attached else 'remove'
            if uid in tolerate:
                continue
            if (seq[-1] if seq else 'remove') != want_last:
                res.div(at, 'reentry-callbacks-vs-attachment',
                        f'component {uid} ({type(c).__name__}) is '
                        f'{"attached" if uid in attached else "detached"} '
                        'but its last lifecycle callback says otherwise',
                        want_last, seq)
                return False
            try:
                reg = w.is_handler(c)
            except Exception as ex:
                reg = repr(ex)
            if reg != (uid in attached):
                res.div(at, 'reentry-registration', f'component {uid} '
                        f'({type(c).__name__}) registered as listener: {reg}, '
                        f'attached: {uid in attached}', uid in attached, reg)
                return False
        if bad_args:
            res.div(at, 'reentry-callback-arguments', 'a lifecycle callback '
                    'did not carry the real owner and world', None,
                    bad_args[:3])
            return False
        # an event of the world reaches exactly the attached components
        del pings[:]
        w.dispatch('ping', 1)
        got = collections.Counter(pings)
        want = collections.Counter(u for u in attached if u not in tolerate)
        for u in tolerate:
            got.pop(u, None)
        if got != want:
            res.div(at, 'reentry-event-reach', 'a world event did not reach '
                    'exactly the attached components once each',
                    sorted(want.elements()), sorted(got.elements()))
            return False
        return True

    # ---- the outer operation
    outer = case['outer']
    exc = None
    try:
        if outer in ('flush', 'flush_multi'):
            w.delete_entity(E)
            if outer == 'flush_multi':
                for ent in others:
                    w.delete_entity(ent)
            w.process(1)
        elif outer == 'immediate':
            w.delete_entity(E, immediate=True)
        elif outer == 'remove':
            w.remove_component(E, type(actor))
        elif outer == 'replace':
            c = new(type(actor))
            owner[c.uid] = E
            w.add_component(E, c)
        elif outer == 'clear':
            w.clear()
    except BaseException as ex:     # noqa: B902 - judged below
        exc = ex
    res.stats['outer_operations'] += 1
    res.tags['outer'].add(outer)
    if not state['acted']:
        raise HarnessError('the actor was never notified')
    if case['fault']:
        if exc is not state['fault']:
            res.div(1, 'reentry-fault-not-propagated', 'on_remove raised '
                    f'during {outer} but the operation did not propagate '
                    'that exception', repr(state['fault']), repr(exc))
            return res
    elif exc is not None:
        if not isinstance(exc, Exception):
            raise exc
        res.div(1, 'reentry-operation-raised', f'{outer} raised '
                f'{type(exc).__name__}: {exc} because an on_remove callback '
                f'did {case["action"]}', 'no exception', repr(exc),
                action=case['action'])
        return res

    tolerate = set()    # also the component whose on_remove raised: it is
    #                     detached, so it is no listener any more
    if case['fault'] and outer in ('flush', 'flush_multi'):
        # delete_entity made the entity stop existing at once; a frame that
        # failed while applying the deletion does not bring it back
        res.stats['existence_after_failed_flush_checked'] += 1
        if w.entity_exists(E) or E in w.entities:
            res.div(2, 'reentry-deletion-cancelled', 'the frame that was '
                    'applying the deferred deletion failed (an on_remove '
                    'raised once) and the entity exists again',
                    'still not existing; the deletion is completed by a '
                    'later frame', 'exists')
            return res
    if not case['fault']:
        attached = sweep(2)
        if attached is None or not judge_components(2, attached):
            return res
        if respawned and state.get('respawn_deleted'):
            res.stats['respawns_deleted_again_at_once'] += 1
            # (marks set while a flush is running are served by that same
            # flush, as for any other entity deleted from an on_remove: the
            # new entity is either gone already or waits, whole, for the
            # next frame)
            missing = [u for u in respawned if attached.get(u) != E]
            if w.entity_exists(E) or (missing and len(missing)
                                      != len(respawned)):
                res.div(2, 'reentry-new-deletion-lost', 'the new entity '
                        'created under the dying id was asked to go with a '
                        'deferred deletion of its own: it does not exist '
                        'for entity_exists any more (and is either whole or '
                        'gone)', {'missing': 'all or none', 'exists': False},
                        {'missing': missing, 'exists': w.entity_exists(E)})
                return res
            try:
                w.process(1)
            except Exception as ex:
                res.div(3, 'reentry-later-frame-fails', 'the frame after the '
                        'respawn raised', 'no exception', repr(ex))
                return res
            left = [c.uid for c in w.get_components(E)]
            if left or w.entity_exists(E):
                res.div(3, 'reentry-new-deletion-lost', 'the deferred '
                        'deletion requested for the new entity (created '
                        'under the id of the entity being flushed) was not '
                        'applied by the next process()', [],
                        [left, w.entity_exists(E)])
                return res
            res.nontrivial = True
            return res
        if respawned:
            res.stats['respawns_under_the_dying_id'] += 1
            missing = [u for u in respawned if attached.get(u) != E]
            if missing or not w.entity_exists(E):
                res.div(2, 'reentry-new-entity-damaged', 'an on_remove of '
                        'the entity being deleted created a NEW entity under '
                        'the same id; the deletion in progress went on and '
                        'took components from it', 'all of its components '
                        'attached, entity exists',
                        {'missing': missing, 'exists': w.entity_exists(E)})
                return res
            res.nontrivial = True
            return res
        whole = outer in ('flush', 'flush_multi', 'immediate', 'clear')
        grows = case['action'] in ('add_new',) or bool(respawned)
        if whole and not grows:
            left = [c.uid for c in w.get_components(E)]
            if left or w.entity_exists(E) or E in w.entities:
                res.div(2, 'reentry-entity-not-deleted', f'after {outer} the '
                        'entity still exists / owns components', [],
                        [left, w.entity_exists(E)])
                return res
    # ---- later frames: a reaper deletes E again while it exists
    for f in range(case['frames']):
        del state['procs_run'][:]
        try:
            # only a deferred deletion is still pending after a failure
            deferred = outer in ('flush', 'flush_multi')
            if w.entity_exists(E) and (case.get('reaper', True)
                                       or not deferred):
                w.delete_entity(E)
            w.process(1)
        except Exception as ex:
            res.div(3 + f, 'reentry-later-frame-fails', f'frame {f + 1} '
                    f'after the {"failed" if case["fault"] else "re-entrant"}'
                    f' {outer} raised', 'no exception', repr(ex),
                    fault=case['fault'], action=case['action'])
            return res
        res.stats['later_frames_checked'] += 1
        if outer != 'clear' and case['action'] != 'clear' \
                and sorted(state['procs_run']) != list(range(case['procs'])):
            res.div(3 + f, 'reentry-processors-not-run', 'processors did not '
                    'each run once in a later frame',
                    list(range(case['procs'])), state['procs_run'])
            return res
    attached = sweep(9)
    if attached is None or not judge_components(9, attached, tolerate):
        return res
    grows = case['action'] == 'add_new' and not case.get('reaper', True)
    if (w.get_components(E) or w.entity_exists(E)) and not grows:
        res.div(9, 'reentry-entity-not-deleted', 'the entity could not be '
                'deleted for good by later frames', [],
                [c.uid for c in w.get_components(E)])
    res.nontrivial = case['action'] != 'nop' or case['fault']
    res.sample = {'log': log[:12], 'outer': outer, 'action': case['action']}
    return res


# --------------------------------------------------------------------------
# callbacks released by an enabling assignment that detach components whose
# own postponed on_add is still waiting in the queue
# --------------------------------------------------------------------------

def gen_overtake(rng):
    return {'scenario': 'overtake',
            'victim_after_actor': rng.random() < 0.6,
            'same_entity': rng.random() < 0.4,
            'how': rng.choice(['remove', 'delete_imm', 'replace']),
            'bystanders': rng.randint(0, 2)}


def run_overtake(case):
    desper = import_desper()
    res = Res()
    w = desper.World()
    log = []

    def on_add(self, entity, world):
        log.append((self.uid, 'add'))
        if self.uid == 'actor' and not state['acted']:
            state['acted'] = True
            ent = state['victim_entity']
            if case['how'] == 'remove':
                w.remove_component(ent, Victim)
            elif case['how'] == 'delete_imm':
                if not case['same_entity']:
                    w.delete_entity(ent, immediate=True)
                else:
                    w.remove_component(ent, Victim)
            else:
                fresh = Victim()
                fresh.uid = 'victim2'
                comps['victim2'] = fresh
                w.add_component(ent, fresh)

    def on_remove(self, entity, world):
        log.append((self.uid, 'remove'))

    def mk(name):
        return desper.event_handler('on_add', 'on_remove')(
            type(name, (), {'on_add': on_add, 'on_remove': on_remove}))

    Actor, Victim, Other = mk('Actor'), mk('Victim'), mk('Other')
    state = {'acted': False, 'victim_entity': None}
    comps = {}
    actor, victim = Actor(), Victim()
    actor.uid, victim.uid = 'actor', 'victim'
    comps.update(actor=actor, victim=victim)
    w.dispatch_enabled = False
    for i in range(case['bystanders']):
        o = Other()
        o.uid = f'other{i}'
        comps[o.uid] = o
        w.create_entity(o)
    if case['same_entity']:
        pair = [actor, victim] if case['victim_after_actor'] \
            else [victim, actor]
        e = w.create_entity(pair[0])
        w.add_component(e, pair[1])
        state['victim_entity'] = e
    elif case['victim_after_actor']:
        w.create_entity(actor)
        state['victim_entity'] = w.create_entity(victim)
    else:
        state['victim_entity'] = w.create_entity(victim)
        w.create_entity(actor)
    try:
        w.dispatch_enabled = True
    except Exception as ex:
        res.div(0, 'overtake-release-raised', 'the enabling assignment '
                'raised', 'no exception', repr(ex))
        return res
    res.stats['overtake_releases'] += 1
    res.tags['overtake_shape'].add(
        (case['how'], case['victim_after_actor'], case['same_entity']))
    attached = set()
    for ent in w.entities:
        for c in w.get_components(ent):
            attached.add(c.uid)
    for uid, c in comps.items():
        seq = [k for u, k in log if u == uid]
        good = all(k == ('add' if i % 2 == 0 else 'remove')
                   for i, k in enumerate(seq))
        last_ok = (seq[-1] if seq else 'remove') == (
            'add' if uid in attached else 'remove')
        res.stats['callback_sequences_checked'] += 1
        if not good or not last_ok:
            res.div(1, 'overtake-callbacks-out-of-turn', f'component {uid}: '
                    'lifecycle callbacks of postponed and immediate '
                    'operations were not delivered in operation order (once '
                    'per attach/detach, on_add first)',
                    'add, remove, ... ending with the present state '
                    f'({"attached" if uid in attached else "detached"})', seq)
            return res
        if w.is_handler(c) != (uid in attached):
            res.div(1, 'overtake-registration', f'component {uid} registered: '
                    f'{w.is_handler(c)}, attached: {uid in attached}',
                    uid in attached, w.is_handler(c))
            return res
    res.nontrivial = case['victim_after_actor']
    res.sample = {'log': log}
    return res


# --------------------------------------------------------------------------
# an on_add delivered by create_entity/add_component disables dispatching:
# the callbacks of the components that follow are postponed, not lost and
# not delivered while disabled
# --------------------------------------------------------------------------

def gen_disable(rng):
    n = rng.randint(2, 4)
    return {'scenario': 'disable_in_on_add', 'ncomp': n,
            'actor': rng.randrange(n), 'then': rng.choice(
                ['enable', 'add_then_enable', 'remove_then_enable'])}


def run_disable(case):
    desper = import_desper()
    res = Res()
    w = desper.World()
    log = []

    def on_add(self, entity, world):
        log.append((self.uid, 'add', w.dispatch_enabled))
        if self.uid == case['actor']:
            w.dispatch_enabled = False

    def on_remove(self, entity, world):
        log.append((self.uid, 'remove', w.dispatch_enabled))

    classes = [desper.event_handler('on_add', 'on_remove')(
        type(f'D{i}', (), {'on_add': on_add, 'on_remove': on_remove}))
        for i in range(case['ncomp'] + 1)]
    comps = []
    for i in range(case['ncomp']):
        c = classes[i]()
        c.uid = i
        comps.append(c)
    e = w.create_entity(*comps)
    res.stats['disable_scenarios'] += 1
    attached = set(range(case['ncomp']))
    if case['then'] == 'add_then_enable':
        extra = classes[-1]()
        extra.uid = case['ncomp']
        comps.append(extra)
        w.add_component(e, extra)
        attached.add(extra.uid)
    elif case['then'] == 'remove_then_enable':
        victim = comps[-1] if comps[-1].uid != case['actor'] else comps[0]
        w.remove_component(e, type(victim))
        attached.discard(victim.uid)
    while_disabled = [x for x in log if not x[2]]
    if while_disabled:
        res.div(0, 'callback-while-disabled', 'a lifecycle callback was '
                'delivered after an earlier on_add of the same call had '
                'disabled dispatching', 'postponed',
                while_disabled[:3])
        return res
    w.dispatch_enabled = True
    for c in comps:
        seq = [k for u, k, _ in log if u == c.uid]
        want = ['add'] if c.uid in attached else ['add', 'remove']
        res.stats['callback_sequences_checked'] += 1
        if seq != want:
            res.div(1, 'postponed-callbacks', f'component {c.uid}: lifecycle '
                    'callbacks after dispatching was enabled again',
                    want, seq)
            return res
    res.nontrivial = case['actor'] < case['ncomp'] - 1
    res.sample = {'log': log}
    return res


# --------------------------------------------------------------------------
# nested batch: a callback delivered by a release runs a batch of its own
# (disable, attach/detach, enable) while older postponed callbacks are still
# owed - "postponed callbacks are delivered in operation order"
# --------------------------------------------------------------------------

def gen_nested(rng):
    n = rng.randint(2, 6)
    ops = []
    for k in range(n):
        # 'add': a new entity with component k; 'remove': component k was
        # attached (and told so) before the batch and is detached in it
        ops.append(rng.choice(['add', 'add', 'remove']))
    return {'scenario': 'nested_batch', 'ops': ops,
            'actor': rng.randrange(n - 1),
            'nested': [rng.choice(['add', 'remove_served', 'remove_owed',
                                   'delete_served'])
                       for _ in range(rng.randint(1, 3))],
            'leave_disabled': rng.random() < 0.15,
            # the actor's callback raises (instead of its batch, or at the
            # end of it with dispatching still disabled); the program
            # catches that and enables dispatching (again)
            'fault': rng.choice([None, None, None, 'instead', 'in_batch']),
            # another World listens to this one (registered as a handler, or
            # held as a component of one of its entities)
            'listener_world': rng.choice([None, None, None, 'handler',
                                          'component'])}


def run_nested(case):
    desper = import_desper()
    res = Res()
    w = desper.World()
    log = []
    state = {'acted': False}
    ops = case['ops']
    n = len(ops)
    expected = []

    def nested_batch():
        """Runs inside the actor's callback, older callbacks still owed."""
        w.dispatch_enabled = False
        served = [k for k in range(case['actor'])
                  if ops[k] == 'add' and k not in gone]
        owed = [k for k in range(case['actor'] + 1, n)
                if ops[k] == 'add' and k not in gone]
        for i, what in enumerate(case['nested']):
            if what == 'add':
                c = Comp()
                c.uid = f'n{i}'
                comps[c.uid] = c
                ents[c.uid] = w.create_entity(c)
                expected.append((c.uid, 'add'))
            elif what in ('remove_served', 'delete_served') and served:
                k = served.pop(0)
                gone.add(k)
                if what == 'remove_served':
                    w.remove_component(ents[k], Comp)
                else:
                    w.delete_entity(ents[k], immediate=True)
                expected.append((k, 'remove'))
            elif what == 'remove_owed' and owed:
                # attached in the outer batch, its on_add is still owed:
                # the on_remove comes after it, in operation order
                k = owed.pop()
                gone.add(k)
                w.remove_component(ents[k], Comp)
                expected.append((k, 'remove'))
        if case.get('fault') == 'in_batch':
            state['fault'] = HarnessError('fault in the nested batch')
            raise state['fault']
        if not case['leave_disabled']:
            w.dispatch_enabled = True

    def act():
        state['acted'] = True
        if case.get('fault') == 'instead':
            state['fault'] = HarnessError('fault in a released callback')
            raise state['fault']
        nested_batch()

    def on_add(self, entity, world):
        log.append((self.uid, 'add'))
        owners.append((self.uid, entity, world))
        if self.uid == case['actor'] and not state['acted']:
            act()

    def on_remove(self, entity, world):
        log.append((self.uid, 'remove'))
        owners.append((self.uid, entity, world))
        if self.uid == case['actor'] and not state['acted']:
            act()

    Comp = desper.event_handler('on_add', 'on_remove')(
        type('Comp', (), {'on_add': on_add, 'on_remove': on_remove}))
    comps, ents, gone, owners = {}, {}, set(), []
    for k, what in enumerate(ops):
        c = Comp()
        c.uid = k
        comps[k] = c
        if what == 'remove':
            state['acted'] = True       # not yet: told at once, no batch
            ents[k] = w.create_entity(c)
    state['acted'] = False
    other = None
    if case.get('listener_world') == 'handler':
        other = desper.World()
        w.add_handler(other)
    elif case.get('listener_world') == 'component':
        other = desper.World()
        w.create_entity(other)
    if other is not None:
        res.tags['second_world_listening'].add(case['listener_world'])
    del log[:]
    w.dispatch_enabled = False
    for k, what in enumerate(ops):
        if what == 'add':
            ents[k] = w.create_entity(comps[k])
        else:
            w.remove_component(ents[k], Comp)
            gone.add(k)
        expected.append((k, what))
    if log:
        res.div(0, 'callback-while-disabled', 'a lifecycle callback ran while '
                'dispatching was disabled', [], list(log))
        return res
    pre = list(expected)
    try:
        try:
            w.dispatch_enabled = True
        except HarnessError as ex:
            if ex is not state.get('fault'):
                raise
            res.stats['nested_release_interrupted'] += 1
            # what was not delivered is still owed: enabling (again; without
            # a disable in between when the fault came instead of the batch)
            # delivers it
            w.dispatch_enabled = True
        if case['leave_disabled']:
            # the nested batch left dispatching disabled: what was owed stays
            # owed, in order, until the program enables again
            if not w.dispatch_enabled:
                res.stats['nested_left_disabled'] += 1
            w.dispatch_enabled = True
    except Exception as ex:
        res.div(0, 'nested-batch-raised', 'the enabling assignment raised',
                'no exception', repr(ex))
        return res
    if res.divs:
        return res
    res.stats['nested_batches'] += 1
    res.stats['callback_sequences_checked'] += len(expected)
    res.tags['nested_shape'].add((ops[case['actor']], tuple(case['nested']),
                                  case.get('fault')))
    if not state['acted']:
        raise HarnessError('the actor was never served')
    for uid, entity, world in owners:
        if entity != ents[uid] or world is not w:
            res.div(1, 'nested-batch-owner', f'component {uid}: lifecycle '
                    'callback with another owner or world', ents[uid], entity)
            return res
    if log != expected:
        res.div(1, 'nested-batch-order', 'postponed lifecycle callbacks were '
                'not delivered once each in operation order: a callback '
                'delivered by the release '
                + ('raised (the program caught that and enabled dispatching '
                   'again)' if case.get('fault') == 'instead' else
                   'ran a batch of its own (disable, '
                   f'{case["nested"]}, '
                   + ('then raised; the program enabled dispatching)'
                      if case.get('fault') else 'enable)'))
                + f' while {len(pre) - case["actor"] - 1} older callback(s) '
                'were still owed', expected, list(log))
        return res
    for uid, c in comps.items():
        attached = any(x is c for e in w.entities
                       for x in w.get_components(e))
        if w.is_handler(c) != attached:
            res.div(2, 'nested-batch-registration', f'component {uid} '
                    f'registered: {w.is_handler(c)}, attached: {attached}',
                    attached, w.is_handler(c))
            return res
    res.nontrivial = len(expected) > len(pre) or bool(case.get('fault'))
    res.sample = {'log': [list(x) for x in log]}
    return res


# --------------------------------------------------------------------------
# postponed callbacks of components nobody else refers to any more
# --------------------------------------------------------------------------

def gen_unref(rng):
    return {'scenario': 'unreferenced',
            'comps': [{'attach_disabled': rng.random() < 0.6,
                       'how': rng.choice(['remove', 'delete_imm', 'replace',
                                          'delete_def', 'clear_entity'])}
                      for _ in range(rng.randint(1, 4))],
            'collect': rng.random() < 0.8}


def run_unref(case):
    """Components created inline (the program keeps no reference), attached
    and/or detached while dispatching is disabled: the callbacks they are
    owed are "postponed rather than lost" - the world has to keep what it
    needs to deliver them."""
    import gc
    desper = import_desper()
    res = Res()
    w = desper.World()
    log = []

    def on_add(self, entity, world):
        log.append((self.uid, 'add', entity, world is w))

    def on_remove(self, entity, world):
        log.append((self.uid, 'remove', entity, world is w))

    Comp = desper.event_handler('on_add', 'on_remove')(
        type('Comp', (), {'on_add': on_add, 'on_remove': on_remove}))

    def make(uid):
        c = Comp()
        c.uid = uid
        return c

    ents = {}
    expected = {}
    for k, spec in enumerate(case['comps']):
        if not spec['attach_disabled']:
            ents[k] = w.create_entity(make(k))
    early = list(log)
    del log[:]
    w.dispatch_enabled = False
    for k, spec in enumerate(case['comps']):
        expected[k] = ['remove'] if k in ents else ['add', 'remove']
        if k not in ents:
            ents[k] = w.create_entity(make(k))
    for k, spec in enumerate(case['comps']):
        e = ents[k]
        if spec['how'] == 'remove':
            w.remove_component(e, Comp)
        elif spec['how'] == 'delete_imm':
            w.delete_entity(e, immediate=True)
        elif spec['how'] == 'replace':
            w.add_component(e, make(('new', k)))
            expected[('new', k)] = ['add']
        elif spec['how'] == 'clear_entity':
            for c in w.get_components(e):
                w.remove_component(e, type(c))
            del c
        else:
            w.delete_entity(e)
            w.process()
    if log:
        res.div(0, 'callback-while-disabled', 'a lifecycle callback ran while '
                'dispatching was disabled', [], [list(x[:2]) for x in log])
        return res
    if case['collect']:
        gc.collect()
    try:
        w.dispatch_enabled = True
    except Exception as ex:
        res.div(1, 'unreferenced-release-raised', 'the enabling assignment '
                'raised', 'no exception', repr(ex))
        return res
    res.stats['unreferenced_batches'] += 1
    res.stats['callback_sequences_checked'] += len(expected)
    res.tags['unreferenced_how'].update(s['how'] for s in case['comps'])
    for uid, want in expected.items():
        got = [kind for u, kind, _, _ in log if u == uid]
        if got != want:
            res.div(1, 'unreferenced-callbacks-lost', f'component {uid!r} '
                    '(created inline, no reference kept by the program) was '
                    'attached and/or detached while dispatching was '
                    'disabled: the callbacks it is owed are postponed, not '
                    'lost', want, got)
            return res
    for u, kind, entity, same_world in log:
        k = u[1] if isinstance(u, tuple) else u
        if entity != ents[k] or not same_world:
            res.div(1, 'unreferenced-owner', f'component {u!r}: callback '
                    'with another owner or world', ents[k], entity)
            return res
    res.nontrivial = True
    res.sample = {'log': [list(x[:2]) for x in log], 'early': len(early)}
    return res
