"""Known findings: loaded from /verif/known_findings.json (never written at
run time).  A witness is matched by *mechanism* - a predicate over the case
and the position/kind of its first divergence, implemented by the property
module's ``classify(case, divergence)`` - never by hash, seed or values.
``fixed`` entries suppress nothing.
"""
import json
import os

_PATH = os.path.join(os.path.dirname(os.path.dirname(os.path.abspath(__file__))),
                     'known_findings.json')
_cache = None


def entries():
    global _cache
    if _cache is None:
        try:
            with open(_PATH) as fin:
                _cache = json.load(fin)['findings']
        except FileNotFoundError:
            _cache = []
    return _cache


def known(pid):
    return {e['mechanism']: e for e in entries()
            if e['property'] == pid and e['status'] == 'known'}


def classify(mod, case, div):
    listed = known(mod.ID)
    if not listed or not hasattr(mod, 'classify'):
        return None
    mech = mod.classify(case, div)
    return mech if mech in listed else None


def what(pid, mech):
    return f"{mech}: {known(pid)[mech]['what']}"
