"""The repository's own test suite as one more workload under the monitors.

A pytest plugin (``-p vf.suite_monitor``, PYTHONPATH = /verif and the tree
under test). It wraps the mutating public methods of ``desper.World`` and,
every time an outermost call returns normally, walks the world through its
PUBLIC queries only and checks the order-free invariants of C01 (the queries
tell one story), C02 (listener registration == attachment) and C07 (one
processor per exact type, ``get_processor`` agrees with ``processors``). Nothing is asserted about what the tests do; a
test that the monitors disturb would show as a failing test, which is
reported too. Results go to the JSON file named by ``VF_SUITE_MONITOR_OUT``.

The invariants are the ones the generated workloads already use (vf/session
.py); here the *inputs* are somebody else's: 111 hand-written tests.
"""
import collections
import functools
import json
import os

WRAPPED = ['create_entity', 'add_component', 'remove_component',
           'delete_entity', 'process', 'clear', 'add_processor',
           'remove_processor']

STATE = {'depth': 0, 'calls': collections.Counter(), 'evaluations': 0,
         'pairs_checked': 0, 'violations': [], 'worlds': set(),
         'skipped_nested': 0, 'skipped_raised': 0, 'tests_failed': [],
         'tests_run': 0, 'tree_evaluations': 0, 'tree_nodes_checked': 0}


def _violation(kind, what, **kw):
    if len(STATE['violations']) < 20:
        STATE['violations'].append(dict(kind=kind, what=what,
                                        test=os.environ.get(
                                            'PYTEST_CURRENT_TEST', '?'),
                                        **{k: repr(v)[:200]
                                           for k, v in kw.items()}))


def check_world(w, after):
    """Order-free invariants over public queries only."""
    STATE['evaluations'] += 1
    try:
        pairs = list(w.get(object))
    except Exception as ex:         # noqa
        _violation('query-raised', f'get(object) after {after}', ex=ex)
        return
    seen = collections.Counter()
    for e, c in pairs:
        STATE['pairs_checked'] += 1
        seen[(id(c), repr(e))] += 1
        try:
            comps = w.get_components(e)
            has = w.has_component(e, type(c))
            got = w.get_component(e, type(c))
        except Exception as ex:     # noqa
            _violation('query-raised', f'queries on entity {e!r} after '
                       f'{after}', ex=ex)
            return
        if not any(x is c for x in comps):
            _violation('get-vs-get_components', f'get(object) lists a '
                       f'component of {e!r} that get_components({e!r}) does '
                       f'not (after {after})', component=c)
        if c is not None and (not has or got is None):
            _violation('get-vs-has_component', f'component of {e!r} listed '
                       f'by get(object) but has/get_component by its exact '
                       f'type say no (after {after})', component=c)
        if isinstance(getattr(type(c), '__events__', None), dict) \
                and w.is_handler(c) is not True:
            _violation('attached-not-registered', f'handler component of '
                       f'{e!r} is attached but not a listener of the world '
                       f'(after {after})', component=c)
    if any(n > 1 for n in seen.values()):
        _violation('pair-listed-twice', f'get(object) lists a pair twice '
                   f'(after {after})')
    owners = {repr(e) for e, _ in pairs}
    for e in w.entities:
        if repr(e) not in owners:
            _violation('entity-without-components', f'entities names {e!r} '
                       f'which owns nothing according to get(object) (after '
                       f'{after})')
        if not w.entity_exists(e):
            _violation('entities-vs-entity_exists', f'{e!r} (after {after})')
    procs = w.processors
    if len({type(p) for p in procs}) != len(procs):
        _violation('two-processors-of-one-type', f'after {after}',
                   processors=procs)
    for p in procs:
        if w.get_processor(type(p)) is not p:
            _violation('processors-vs-get_processor', f'after {after}',
                       processor=p)


def check_tree(m, after, seen=None):
    """C11: under one map a name is a handle or a sub-map, and everything
    reachable records the map containing it and the name it is stored
    under (public attributes ``maps``, ``handles``, ``parent``, ``key``)."""
    seen = set() if seen is None else seen
    if id(m) in seen:
        return
    seen.add(id(m))
    STATE['tree_evaluations'] += 1
    for name in list(m.handles):
        h = m.handles[name]
        STATE['tree_nodes_checked'] += 1
        if name in m.maps:
            _violation('name-is-handle-and-map', f'{name!r} (after {after})')
        if getattr(h, 'parent', None) is not m \
                or getattr(h, 'key', None) != name:
            _violation('handle-back-link', f'handle stored under {name!r} '
                       f'records parent/key {getattr(h, "parent", None)!r}/'
                       f'{getattr(h, "key", None)!r} (after {after})')
        if m.get(name) is not h:
            _violation('get-vs-handles', f'get({name!r}) is not the visible '
                       f'handle (after {after})')
    for name, sub in list(m.maps.items()):
        STATE['tree_nodes_checked'] += 1
        if getattr(sub, 'parent', None) is not m \
                or getattr(sub, 'key', None) != name:
            _violation('map-back-link', f'sub-map stored under {name!r} '
                       f'records parent/key {getattr(sub, "parent", None)!r}/'
                       f'{getattr(sub, "key", None)!r} (after {after})')
        if m.get(name) is not sub:
            _violation('get-vs-maps', f'get({name!r}) is not the sub-map '
                       f'(after {after})')
        check_tree(sub, after, seen)


def _wrap(name, original, checker=None):
    checker = checker or check_world

    @functools.wraps(original)
    def wrapper(self, *args, **kwargs):
        STATE['depth'] += 1
        try:
            out = original(self, *args, **kwargs)
        except BaseException:
            STATE['depth'] -= 1
            STATE['skipped_raised'] += 1
            raise
        STATE['depth'] -= 1
        STATE['calls'][name] += 1
        if STATE['depth'] == 0:
            STATE['worlds'].add(id(self))
            checker(self, name)
        else:
            STATE['skipped_nested'] += 1
        return out
    return wrapper


def pytest_configure(config):
    import desper
    for name in WRAPPED:
        setattr(desper.World, name, _wrap(name, getattr(desper.World, name)))
    for name in ('__setitem__', 'clear'):
        setattr(desper.ResourceMap, name,
                _wrap('ResourceMap.' + name,
                      getattr(desper.ResourceMap, name), check_tree))
    STATE['desper_file'] = desper.__file__


def pytest_runtest_logreport(report):
    if report.when == 'call':
        STATE['tests_run'] += 1
    if report.failed:
        STATE['tests_failed'].append(report.nodeid)


def pytest_sessionfinish(session, exitstatus):
    out = os.environ.get('VF_SUITE_MONITOR_OUT')
    if not out:
        return
    with open(out, 'w') as fout:
        json.dump({'calls': dict(STATE['calls']),
                   'evaluations': STATE['evaluations'],
                   'pairs_checked': STATE['pairs_checked'],
                   'tree_evaluations': STATE['tree_evaluations'],
                   'tree_nodes_checked': STATE['tree_nodes_checked'],
                   'worlds': len(STATE['worlds']),
                   'skipped_nested': STATE['skipped_nested'],
                   'skipped_raised': STATE['skipped_raised'],
                   'violations': STATE['violations'],
                   'tests_run': STATE['tests_run'],
                   'tests_failed': STATE['tests_failed'],
                   'desper_file': STATE.get('desper_file'),
                   'exitstatus': int(exitstatus)}, fout)


# ---------------------------------------------------------------- check side
FAMILY = {
    'C01': ('query-raised', 'get-vs-get_components', 'get-vs-has_component',
            'pair-listed-twice', 'entity-without-components',
            'entities-vs-entity_exists'),
    'C02': ('attached-not-registered',),
    'C07': ('two-processors-of-one-type', 'processors-vs-get_processor'),
    'C11': ('name-is-handle-and-map', 'handle-back-link', 'map-back-link',
            'get-vs-handles', 'get-vs-maps'),
}


def run_suite(family):
    """Run DESPER_ROOT/tests under this plugin in a child interpreter and
    turn what the monitors saw into a result of the calling check."""
    import subprocess
    import sys
    import tempfile
    from vf import DESPER_ROOT
    from vf.core import Res
    res = Res()
    tests = os.path.join(DESPER_ROOT, 'tests')
    if not os.path.isdir(tests):
        res.stats['suite_absent'] += 1
        return res
    verif = os.path.dirname(os.path.dirname(os.path.abspath(__file__)))
    with tempfile.TemporaryDirectory(prefix='vf-suite-') as tmp:
        out = os.path.join(tmp, 'monitor.json')
        env = dict(os.environ, VF_SUITE_MONITOR_OUT=out,
                   PYTHONPATH=os.pathsep.join([DESPER_ROOT, verif]),
                   PYTHONDONTWRITEBYTECODE='1')
        env.pop('COVERAGE_PROCESS_START', None)
        try:
            proc = subprocess.run(
                [sys.executable, '-m', 'pytest', '-q', '-p',
                 'no:cacheprovider', '-p', 'vf.suite_monitor', tests],
                cwd=DESPER_ROOT, env=env, capture_output=True, text=True,
                timeout=600)
        except subprocess.TimeoutExpired:
            res.stats['suite_timed_out'] += 1
            return res
        if not os.path.exists(out):
            res.stats['suite_did_not_report'] += 1
            res.sample = {'tail': (proc.stdout + proc.stderr)[-400:]}
            return res
        with open(out) as fin:
            seen = json.load(fin)
    if not os.path.abspath(seen.get('desper_file') or '').startswith(
            DESPER_ROOT + os.sep):
        res.stats['suite_imported_another_desper'] += 1
        return res
    res.stats['suite_tests_run'] += seen['tests_run']
    res.stats['suite_tests_failed'] += len(seen['tests_failed'])
    res.stats['suite_world_calls_observed'] += sum(seen['calls'].values())
    res.stats['suite_invariant_evaluations'] += seen['evaluations']
    res.stats['suite_pairs_checked'] += seen['pairs_checked']
    res.stats['suite_tree_evaluations'] += seen.get('tree_evaluations', 0)
    res.stats['suite_tree_nodes_checked'] += seen.get('tree_nodes_checked', 0)
    res.tags['suite_calls'].update(seen['calls'])
    mine = [v for v in seen['violations'] if v['kind'] in FAMILY[family]]
    if mine:
        v = mine[0]
        res.div(0, 'suite-' + v['kind'], 'the repository\'s own test suite '
                'run under the monitors: ' + v['what'], 'the invariant holds '
                'after every outermost World call', {k: x for k, x in
                                                     v.items()
                                                     if k not in ('kind',
                                                                  'what')})
    res.nontrivial = seen['evaluations'] > 100
    res.sample = {'calls': seen['calls'], 'worlds': seen['worlds'],
                  'skipped_nested': seen['skipped_nested'],
                  'skipped_raised': seen['skipped_raised']}
    return res
