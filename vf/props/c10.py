"""C10 - Handlers are held weakly and never called after they are gone."""
import collections
import gc
import itertools
import random
import sys
import weakref

from vf import import_desper
from vf.core import Res

ID = 'C10'
LEVEL = 'fault_enumeration'
RULE = ('k=2-3 (quick, exhaustive) / up to 5 (thorough) handlers on one event, '
        'owned by the harness (bare EventDispatcher) or - as components or as '
        'processors - by a World that holds the only strong reference. The '
        'fault is dropping the last strong reference to a victim: between two '
        'operations (del / remove_component / delete_entity(immediate) / '
        'remove_processor / clear) or INSIDE callback number i of the dispatch '
        'for every i and every victim other than the running handler. The '
        'listener iteration order is steered through __hash__ (all '
        'permutations of hash values for k<=3; effective only where the '
        'dispatcher hashes handlers by value) and the delivery order actually '
        'observed is recorded; handlers may be value-like (distinct handlers '
        'that compare and hash equal, also across classes). Oracle: no callback with a None receiver, no '
        'exception, every handler alive and registered for the whole dispatch '
        'receives the token exactly once, dropped handlers receive nothing '
        'afterwards, after gc.collect() every dropped handler is dead, and a '
        'further dispatch reaches exactly the survivors. Non-trivial = the '
        'victim died inside the dispatch while it had not yet received the '
        'event (still pending in the snapshot).'
        ' Rounds 11-13 added: the program queries the world before dropping;'
        ' liveness of a dropped victim checked inside the running dispatch.'
        ' Round 14 added: a bare dispatcher cleared from a callback,'
        ' handlers dropped afterwards.')
ANCHORS = [
    'desper/events.py::EventDispatcher.add_handler',
    'desper/events.py::EventDispatcher._remove_weak_handler',
    'desper/events.py::EventDispatcher.dispatch',
]
MIN_NONTRIVIAL = {'quick': 60, 'thorough': 5000}
MIN_STATS = {'dispatches_checked': 500, 'drops_inside_dispatch': 100}
EXHAUSTIVE = {
    'quick': 'k in {2,3} x all permutations of steered hash values x every '
             'callback position x every victim x owner kinds x drop methods',
    'thorough': 'the quick sub-space (k<=4 here) plus random k<=5 with two '
                'victims'}
ASSUMPTIONS = ['CPython reference counting (the victim dies at the drop); '
               "don't-care: whether a victim dropped during the dispatch had "
               'already received the event']

OWNERS = ['bare', 'comp', 'proc']
HOWS = {'bare': ['del', 'clear'], 'comp': ['remove', 'delete', 'clear'],
        'proc': ['remove', 'clear']}


def enum_cases(maxk):
    for k in range(2, maxk + 1):
        for hashes in itertools.permutations(range(k)):
            for owner in OWNERS:
                for how in HOWS[owner]:
                    for i in range(k):
                        for v in range(k - 1):
                            yield {'k': k, 'hashes': list(hashes),
                                   'owner': owner,
                                   'drops': [{'when': i, 'victim': v,
                                              'how': how}]}
                    for v in range(k):
                        yield {'k': k, 'hashes': list(hashes), 'owner': owner,
                               'drops': [{'when': 'between', 'victim': v,
                                          'how': how}]}


def gen_cases(tier, seed):
    for n, case in enumerate(enum_cases(3 if tier == 'quick' else 4)):
        yield case
        # the same, but the event is deferred and released by enabling
        yield dict(case, flush=True)
        if n % 4 == 0 and case['owner'] == 'bare':
            # every handler registered twice before anything is dropped
            yield dict(case, twice=True)
    for k in (1, 2, 3):
        yield {'mode': 'slots', 'k': k}
    # a registration that failed half way (the mapping names a method that
    # does not exist), the program carries on and later drops the handler
    for k in (0, 1, 2):
        for first in (True, False):
            for flush in (False, True):
                yield {'mode': 'half', 'k': k, 'bad_first': first,
                       'flush': flush}
    # value-like handlers: distinct handlers that compare and hash equal
    for k in (2, 3, 4):
        for hashes in ([0] * k, [0] * (k - 1) + [1]):
            for owner in OWNERS:
                for how in HOWS[owner]:
                    for when in ['between'] + list(range(k)):
                        for v in range(k):
                            yield {'k': k, 'hashes': hashes, 'owner': owner,
                                   'eq': True,
                                   'drops': [{'when': when, 'victim': v,
                                              'how': how}]}
    # scale: many listeners of one event, a callback drops listeners that
    # the dispatch has not reached yet
    for k in (40, 70, 100):
        for owner in OWNERS:
            for i in (0, 1, k // 2):
                yield {'k': k, 'hashes': list(range(k)), 'owner': owner,
                       'drops': [{'when': i, 'victim': 3,
                                  'how': 'clear' if owner != 'bare' else 'del',
                                  'many': owner == 'bare'}]}
    # re-entrancy: a callback re-dispatches the same event, and only after
    # that nested dispatch has returned a listener disappears
    for k in (2, 3, 4):
        for owner in OWNERS:
            for how in HOWS[owner]:
                for i in range(k):
                    yield {'k': k, 'hashes': list(range(k)), 'owner': owner,
                           'nested_first': True,
                           'drops': [{'when': i, 'victim': 1, 'how': how}]}
    n = 1000 if tier == 'quick' else 16 * 10000
    for i in range(n):
        rng = random.Random(f'C10/{seed}/{tier}/{i}')
        k = rng.randint(2, 5)
        owner = rng.choice(OWNERS)
        hashes = [rng.randrange(8) for _ in range(k)]
        drops = []
        for _ in range(rng.randint(1, 2)):
            drops.append({'when': rng.choice(['between'] + list(range(k))),
                          'victim': rng.randrange(k),
                          'how': rng.choice(HOWS[owner])})
        yield {'k': k, 'hashes': hashes, 'owner': owner, 'drops': drops,
               'flush': rng.random() < 0.4,
               'twice': owner == 'bare' and rng.random() < 0.3,
               'eq': rng.random() < 0.3}


def run_slots(case):
    """Handlers that cannot be weakly referenced: the dispatcher may refuse
    them (TypeError) but may not keep them alive."""
    desper = import_desper()
    res = Res()
    alive = [0]
    got = []

    class Slotted:
        __slots__ = ('uid',)

        def __init__(self, uid):
            self.uid = uid
            alive[0] += 1

        def __del__(self):
            alive[0] -= 1

        def on_ev(self, token):
            got.append((self.uid, token))
    Slotted = desper.event_handler(ev='on_ev')(Slotted)
    d = desper.EventDispatcher()
    accepted = 0
    for uid in range(case['k']):
        obj = Slotted(uid)
        try:
            d.add_handler(obj)
            accepted += 1
        except TypeError:
            res.tags['non_weakrefable'].add('refused')
        del obj
    gc.collect()
    res.stats['dispatches_checked'] += 1
    try:
        d.dispatch('ev', 1)
    except Exception as ex:
        res.div(1, 'operation-raised', f'{type(ex).__name__}: {ex}',
                'no exception', repr(ex))
    if alive[0] or got:
        res.div(1, 'handler-kept-alive', 'handlers that cannot be weakly '
                'referenced are kept alive by the dispatcher after the '
                'program dropped them', 'released (or refused)',
                {'alive': alive[0], 'called': got, 'accepted': accepted})
    res.nontrivial = True
    res.sample = {'mode': 'slots', 'accepted': accepted}
    return res


def run_half(case):
    desper = import_desper()
    res = Res()
    got = []

    def on_ev(self, token):
        got.append((self is None, getattr(self, 'uid', None), token))

    Good = desper.event_handler(ev='on_ev')(type('G', (), {'on_ev': on_ev}))
    mapping = {'zz': 'missing', 'ev': 'on_ev'} if case['bad_first'] \
        else {'ev': 'on_ev', 'zz': 'missing'}
    Bad = type('B', (), {'on_ev': on_ev, '__events__': mapping})
    d = desper.EventDispatcher()
    good = []
    for uid in range(case['k']):
        g = Good()
        g.uid = uid
        good.append(g)
        d.add_handler(g)
    bad = Bad()
    bad.uid = 'bad'
    ref = weakref.ref(bad)
    try:
        d.add_handler(bad)
        res.tags['half_registration'].add('accepted')
        failed = False
    except Exception as ex:
        res.tags['half_registration'].add(type(ex).__name__)
        failed = True
    if failed:
        # the registration failed: the object is no handler and receives
        # nothing (and remove_handler has nothing to undo)
        d.dispatch('ev', 0)
        if d.is_handler(bad) or any(e[1] == 'bad' for e in got):
            res.div(0, 'failed-registration-still-served', 'add_handler '
                    'raised, yet the object is served / reported as a '
                    'handler', [False, []],
                    [d.is_handler(bad), [e for e in got if e[1] == 'bad']])
            return res
        del got[:]
    del bad
    gc.collect()
    if ref() is not None:
        res.div(0, 'handler-kept-alive', 'a handler whose registration '
                'failed half way is kept alive by the dispatcher', 'dead',
                'alive')
        return res
    try:
        if case['flush']:
            d.dispatch_enabled = False
            d.dispatch('ev', 1)
            d.dispatch_enabled = True
        else:
            d.dispatch('ev', 1)
    except Exception as ex:
        res.div(1, 'operation-raised', f'{type(ex).__name__}: {ex}',
                'no exception', repr(ex))
        return res
    res.stats['dispatches_checked'] += 1
    if any(e[0] for e in got):
        res.div(1, 'none-receiver', 'a callback was invoked with a missing '
                '(None) receiver', 'never', got)
    elif sorted(e[1] for e in got) != list(range(case['k'])):
        res.div(1, 'delivery-count', 'the live handlers did not receive the '
                'event once each', list(range(case['k'])), got)
    res.nontrivial = True
    res.sample = {'mode': 'half', 'got': got}
    return res


def run_case(case):
    if case.get('mode') == 'slots':
        return run_slots(case)
    if case.get('mode') == 'half':
        unraisable = []
        old_hook = sys.unraisablehook
        sys.unraisablehook = lambda u: unraisable.append(repr(u.exc_value))
        try:
            res = run_half(case)
        finally:
            sys.unraisablehook = old_hook
        if unraisable and not res.divs:
            res.div(2, 'unraisable-in-cleanup', 'an exception was swallowed '
                    'inside the clean-up that runs when a handler is '
                    'collected', 'no exception', unraisable[:3])
        return res
    unraisable = []
    old_hook = sys.unraisablehook
    sys.unraisablehook = lambda u: unraisable.append(
        f'{type(u.exc_value).__name__}: {u.exc_value} in {u.object!r}')
    try:
        res = _run_case(case)
    finally:
        sys.unraisablehook = old_hook
    if unraisable and not res.divs:
        res.div(2, 'unraisable-in-cleanup', 'an exception was swallowed '
                'inside the clean-up that runs when a handler is collected',
                'no exception', unraisable[:3])
    return res


def _run_case(case):
    desper = import_desper()
    res = Res()
    k = case['k']
    owner = case['owner']
    log = []                # (receiver_is_none, uid, token)
    state = {'count': 0, 'token': None}
    refs = []               # weak references to all handlers
    strong = [None] * k     # harness-owned strong references (bare only)
    dropped = set()
    drop_events = []        # (uid dropped, had_received_already)
    inside = {d['when']: d for d in case['drops'] if d['when'] != 'between'}
    between = [d for d in case['drops'] if d['when'] == 'between']
    w = desper.World()
    d = w if owner != 'bare' else desper.EventDispatcher()
    entity_of = {}
    classes = []

    def do_drop(spec, runner_uid):
        """Drop the last strong reference(s); returns the uids dropped."""
        how = spec['how']
        alive = [u for u in range(k) if u not in dropped and u != runner_uid]
        if not alive and how != 'clear':
            return
        if spec.get('many'):
            victims = alive[::2]
        elif how == 'clear':
            # the world lets go of everything, the running handler included
            victims = alive + ([runner_uid] if runner_uid is not None else [])
        else:
            victims = [alive[spec['victim'] % len(alive)]]
        received = {e[1] for e in log if e[2] == state['token']}
        for v in victims:
            dropped.add(v)
            drop_events.append((v, v in received, runner_uid is not None))
        if how == 'del':
            for v in victims:
                strong[v] = None
        elif how == 'clear' and owner == 'bare':
            # the dispatcher forgets everybody, then the program does
            d.clear()
            for v in victims:
                strong[v] = None
        elif how == 'clear':
            w.clear()
        elif owner == 'comp':
            v = victims[0]
            if how == 'remove':
                w.remove_component(entity_of[v], classes[v])
            else:
                w.delete_entity(entity_of[v], immediate=True)
        elif owner == 'proc':
            w.remove_processor(classes[victims[0]])
        if runner_uid is not None:
            # dropped from inside a callback: the running dispatch does not
            # keep the others alive either (it would go on to call them,
            # "after they are gone")
            for v in victims:
                if v == runner_uid:
                    continue
                if refs[v]() is not None:
                    gc.collect()
                res.stats['liveness_checked_inside_dispatch'] += 1
                if refs[v]() is not None and not res.divs:
                    res.div(state['token'], 'handler-kept-alive', f'handler '
                            f'{v} is still alive right after its last '
                            'reference was dropped by a callback of the '
                            'running dispatch (and gc.collect())', 'dead',
                            'alive', inside_dispatch=True)

    def on_ev(self, token):
        if self is None:
            log.append((True, None, token))
            return
        log.append((False, self.uid, token))
        i = state['count']
        state['count'] += 1
        spec = inside.get(i)
        if spec is not None and token == 1:
            if case.get('nested_first'):
                # nested dispatch of the same event (its deliveries carry
                # another token), then the drop
                res.tags['nested_dispatch_before_drop'].add(True)
                state['count'] = 10 ** 6
                d.dispatch('ev', 3)
                state['count'] = i + 1
            do_drop(spec, self.uid)

    def make_class(uid, base):
        ns = {'on_ev': on_ev, '__hash__': lambda self: self.hval}
        if case.get('eq'):
            # value-like handlers: equal (and equally hashed) whenever their
            # steered hash values coincide, also across classes
            ns['__eq__'] = lambda self, other: (
                getattr(other, 'hval', None) == self.hval)
            res.tags['value_equal_handlers'].add(
                len(set(case['hashes'])) < len(case['hashes']))
        if base is not object:
            ns['process'] = lambda self, dt=1: None
        return desper.event_handler(ev='on_ev')(type(f'W{uid}', (base,), ns))

    try:
        # ---- build: the owner holds the only strong reference
        shared = make_class(0, object) if owner != 'proc' else None
        for uid in range(k):
            if owner == 'proc':
                cls = make_class(uid, desper.Processor)
            else:
                # one class, per-instance steered hash
                cls = shared
            classes.append(cls)
            obj = cls.__new__(cls)
            obj.uid = uid
            obj.hval = case['hashes'][uid]
            refs.append(weakref.ref(obj))
            if owner == 'bare':
                strong[uid] = obj
                d.add_handler(obj)
                if case.get('twice'):
                    d.add_handler(obj)
                    res.tags['registered_twice'].add(True)
            elif owner == 'comp':
                entity_of[uid] = w.create_entity(obj)
            else:
                w.add_processor(obj)
            del obj
        # ---- the program looks its handlers up in the world (and keeps
        # nothing of what it is told): answering must not make the world
        # hold on to them
        if owner != 'bare' and case['hashes'][0] % 2 == 0:
            for cls in set(classes) | {object}:
                if owner == 'comp':
                    len(w.get(cls))
                    for e in entity_of.values():
                        w.get_component(e, cls)
                        w.has_component(e, cls)
                elif cls is not object:
                    w.get_processor(cls)
            len(w.processors)
            for e in entity_of.values():
                len(w.get_components(e))
            res.stats['world_queries_before_the_drop'] += 1
        # ---- faults between operations
        state['token'] = 0
        for spec in between:
            do_drop(spec, None)
        pre_dropped = set(dropped)
        for v in pre_dropped:
            if refs[v]() is not None:
                gc.collect()
            if refs[v]() is not None:
                res.div(0, 'handler-kept-alive', f'handler {v} is still '
                        'alive after its last reference was dropped and '
                        'gc.collect()', 'dead', 'alive')
        # ---- the dispatch during which references are dropped
        state['token'] = 1
        state['count'] = 0
        if case.get('flush'):
            res.tags['delivery_path'].add('deferred-release')
            d.dispatch_enabled = False
            d.dispatch('ev', 1)
            if log:
                res.div(1, 'callback-while-disabled', 'callback while '
                        'dispatching was disabled', [], list(map(repr, log)))
            d.dispatch_enabled = True
        else:
            res.tags['delivery_path'].add('direct')
            d.dispatch('ev', 1)
        res.stats['dispatches_checked'] += 1
        check_dispatch(res, log, 1, k, pre_dropped, dropped)
        order = tuple(e[1] for e in log if e[2] == 1)
        res.tags[f'delivery_order_k{k}'].add(order)
        if len(order) == k:
            res.tags[f'full_delivery_order_k{k}'].add(order)
        for v, had, in_dispatch in drop_events:
            if in_dispatch:
                res.stats['drops_inside_dispatch'] += 1
                if not had:
                    res.stats['victim_still_pending_in_snapshot'] += 1
                    res.nontrivial = True
        # ---- afterwards: released, and later dispatches work normally
        gc.collect()
        for v in dropped:
            if refs[v]() is not None:
                res.div(2, 'handler-kept-alive', f'handler {v} is still alive '
                        'after its last reference was dropped and '
                        'gc.collect()', 'dead', 'alive')
        state['token'] = 2
        state['count'] = 10 ** 6
        d.dispatch('ev', 2)
        res.stats['dispatches_checked'] += 1
        check_dispatch(res, log, 2, k, set(dropped), set(dropped))
        # new handlers created after the old ones were collected (CPython
        # readily reuses their addresses) must be registered and served
        if owner == 'bare' and dropped:
            fresh = []
            for n in range(len(dropped) + 1):
                obj = classes[0].__new__(classes[0])
                obj.uid = 1000 + n
                obj.hval = 50 + n
                d.add_handler(obj)
                fresh.append(obj)
            state['token'] = 4
            d.dispatch('ev', 4)
            got4 = collections.Counter(e[1] for e in log if e[2] == 4)
            res.stats['dispatches_checked'] += 1
            for obj in fresh:
                if got4.get(obj.uid, 0) != 1 or not d.is_handler(obj):
                    res.div(4, 'new-handler-not-served', 'a handler created '
                            'and registered after others were collected was '
                            'not registered / not served exactly once',
                            1, got4.get(obj.uid, 0),
                            is_handler=d.is_handler(obj))
                    break
            for obj in fresh:
                d.remove_handler(obj)
            del fresh, obj
        for uid in range(k):
            obj = refs[uid]()
            if uid in dropped or obj is None:
                continue
            if not d.is_handler(obj):
                res.div(2, 'survivor-unregistered', f'live handler {uid} is '
                        'no longer registered', True, False)
            del obj
    except Exception as ex:
        res.div(1, 'operation-raised', f'{type(ex).__name__}: {ex}',
                'no exception', repr(ex))
    res.sample = {'log': [list(map(repr, e)) for e in log][:10],
                  'dropped': sorted(dropped)}
    strong[:] = []
    return res


def check_dispatch(res, log, token, k, dropped_before, dropped_after):
    entries = [e for e in log if e[2] == token]
    for e in entries:
        res.stats['deliveries_checked'] += 1
        if e[0]:
            res.div(token, 'none-receiver', 'a callback was invoked with a '
                    'missing (None) receiver', 'never', list(map(repr, e)))
            return
    got = collections.Counter(e[1] for e in entries)
    for uid in range(k):
        n = got.get(uid, 0)
        if uid in dropped_before:
            good, exp = n == 0, 'nothing (dropped before the dispatch)'
        elif uid in dropped_after:
            good, exp = n <= 1, 'at most once (dropped during the dispatch)'
        else:
            good, exp = n == 1, 'exactly once (alive throughout)'
        if not good:
            res.div(token, 'delivery-count', f'handler {uid} received the '
                    f'event {n} time(s)', exp, n)
            return


def classify(case, div):
    if div['kind'] == 'none-receiver':
        return 'dead-receiver-in-snapshot'
    return None
