"""C08 - Coroutines advance one step per frame and wake exactly on time."""
import random
from fractions import Fraction

from vf import import_desper
from vf.core import Res, HarnessError


class HarnessInterrupt(BaseException):
    """A scripted fault that is not an Exception (as KeyboardInterrupt,
    SystemExit, GeneratorExit, asyncio.CancelledError are not)."""

ID = 'C08'
LEVEL = 'exploration'
RULE = ('1-8 coroutines whose bodies replay a script of yield values (None, '
        '0, negatives, positive dyadic rationals k/8 <= 6, ints; a step may '
        'also start another coroutine, and in 15% of the cases one body raises '
        'at some step, abandoning that frame), started at scripted frames; dt '
        'sequences of dyadic rationals incl. 0 and large jumps (all float '
        'arithmetic exact); overlapping waits on purpose: new waits while '
        'others are pending, equal deadlines, all waits expiring in one '
        'frame, the wait set emptying and refilling (timer restarts). Every '
        'step logs (frame, coroutine, step index, position in frame). Oracle: '
        'a PER-COROUTINE elapsed counter in Fractions (no shared timer): a '
        'waiting coroutine is advanced in the first frame where the dt '
        'accumulated since its yield reaches n, every runnable coroutine '
        'takes exactly one step per frame, coroutines that stay runnable '
        'keep their relative order. Non-trivial = >=2 overlapping waits '
        'started in different frames under uneven dt.'
        ' Rounds 9-13 added: 5-16 sleepers (distinct or equal waits) of'
        ' which some are killed and restarted while asleep; bodies raising'
        ' exceptions that are not Exceptions.'
        ' Round 14 added: a coroutine that yields NaN (the others must wake'
        ' on time).')
ANCHORS = [
    'desper/logic/coroutines.py::CoroutineProcessor.start',
    'desper/logic/coroutines.py::CoroutineProcessor.process',
]
MIN_NONTRIVIAL = {'quick': 500, 'thorough': 10000}
MIN_STATS = {'wakeups_checked': 3000, 'steps_checked': 30000}
ASSUMPTIONS = [
    "don't-care: position of freshly woken or freshly started coroutines "
    'relative to the others; a coroutine started from inside a body during '
    'frame f may take its first step in f or f+1; a body that raises ends '
    'its coroutine and the frame (the other coroutines are judged again '
    'from the next frame on; the relative order of the survivors is compared '
    'with the last complete frame)',
    'dt and wait values are dyadic rationals (exactly representable)',
]


def gen_yield(rng, scale=False):
    k = rng.random()
    if scale and k < 0.7:
        return rng.randint(8, 96) / 8.0      # most coroutines asleep
    if k < 0.25:
        return None
    if k < 0.33:
        return 0
    if k < 0.4:
        return rng.choice([-1, -0.5, -3])
    if k < 0.55:
        return rng.randint(1, 4)
    return rng.randint(1, 48) / 8.0


def gen_one(rng, tier, scale=False):
    big = tier == 'thorough' and rng.random() < 0.5
    nframes = rng.randint(3, 60 if big else 30) if not scale else 120
    nc = rng.randint(1, 8 if big else 6) if not scale else 280
    style = rng.random()
    if style < 0.12:
        # near misses: the accumulated dt falls short of / passes a deadline
        # by 2**-40 (all values and their sums are exactly representable)
        eps = 2.0 ** -40
        dts = [rng.choice([1 - eps, 1, 1 + eps, 0.5 - eps, 0.5, eps, 2 - eps])
               for _ in range(nframes)]
    elif style < 0.3:
        dts = [rng.choice([0.5, 1, 1])] * nframes
    elif style < 0.5:
        dts = [rng.choice([0, 0.125, 0.25, 1, 2, 16]) for _ in range(nframes)]
    else:
        dts = [rng.randint(0, 24) / 8.0 for _ in range(nframes)]
    coros = []
    for c in range(nc):
        script = []
        for _ in range(rng.randint(0, 8) if not scale
                       else rng.randint(3, 12)):
            y = gen_yield(rng, scale)
            if rng.random() < 0.05 and nc > 1:
                script.append({'spawn': rng.randrange(nc), 'y': y})
            else:
                script.append(y)
        if rng.random() < 0.3:
            # equal deadlines / all waits expiring together
            script = [rng.choice([1, 2, 0.5])] * rng.randint(1, 4)
        elif not scale and rng.random() < 0.3:
            # steady coroutines: runnable in every frame for a long while
            script = [rng.choice([None, None, 0, -1])
                      for _ in range(rng.randint(3, 14))]
        coros.append({'start': rng.randrange(max(1, nframes // 2))
                      if rng.random() < 0.9 else None, 'script': script})
    case = {'coros': coros, 'dts': dts}
    if not scale and rng.random() < 0.08:
        # one body yields something that is no usable amount of time (a
        # string, a list, an integer beyond the float range, a Decimal):
        # what becomes of THAT coroutine is not stated; the others must not
        # be disturbed, whether process() raises or not
        c = rng.randrange(nc)
        script = coros[c]['script']
        script.insert(rng.randint(0, len(script)),
                      {'bad': rng.choice(['str', 'list', 'huge', 'nan', 'nan',
                                          'decimal'])})
    elif not scale and rng.random() < 0.15:
        # one body raises at some step (desper.switch()/quit_loop() called
        # from a coroutine work by raising): that frame fails, the others
        # must carry on from the next frame as if nothing had happened
        c = rng.randrange(nc)
        script = coros[c]['script']
        script.insert(rng.randint(0, len(script)), {'raise': True})
    return case


def gen_cases(tier, seed):
    for i in range(2 if tier == 'quick' else 32):
        yield gen_one(random.Random(f'C08/scale/{seed}/{tier}/{i}'), tier,
                      scale=True)
    # several coroutines that run every frame around one that raises
    for i in range(300 if tier == 'quick' else 16 * 500):
        rng = random.Random(f'C08/raise/{seed}/{tier}/{i}')
        nc = rng.randint(3, 7)
        coros = [{'start': 0 if rng.random() < 0.8 else rng.randint(0, 2),
                  'script': [rng.choice([None, None, 0])
                             for _ in range(rng.randint(6, 12))]}
                 for _ in range(nc)]
        victim = coros[rng.randrange(nc)]
        victim['script'] = victim['script'][:rng.randint(1, 4)] \
            + [{'raise': True}]
        if rng.random() < 0.4:
            other = rng.choice([c for c in coros if c is not victim])
            other['script'][rng.randint(0, 3)] = 1.5
        yield {'coros': coros,
               'dts': [rng.choice([0.5, 1]) for _ in range(10)]}
    # dt values that are not dyadic (1/60, 0.1): the shared float timer
    # rounds differently depending on what else is waiting (known finding);
    # the twin with dt = 1/64 must be exact
    for i in range(40 if tier == 'quick' else 16 * 40):
        rng = random.Random(f'C08/float/{seed}/{tier}/{i}')
        dyadic = i % 4 == 3
        dt = 1 / 64 if dyadic else rng.choice([1 / 60, 0.1, 1 / 30, 0.01])
        nframes = rng.randint(40, 90)
        long_wait = {'start': 0, 'script': [rng.choice([3600, 1000.5])]}
        sleeper = {'start': rng.randint(1, 10),
                   'script': [rng.choice([0.5, 0.3, 0.25, 1.0])
                              for _ in range(3)]}
        steady = {'start': 0, 'script': [None] * nframes}
        yield {'coros': [long_wait, sleeper, steady],
               'dts': [dt] * nframes, 'nondyadic': not dyadic}
    # many sleepers, each for another time; some are killed and started
    # again before their time (which takes them out of the wait queue):
    # "whatever other coroutines are waiting for", nobody else's wake-up
    # frame moves
    for i in range(400 if tier == 'quick' else 16 * 800):
        rng = random.Random(f'C08/restart/{seed}/{tier}/{i}')
        nc = rng.randint(5, 16)
        waits = rng.sample(range(2, 4 * nc), nc)
        if rng.random() < 0.3:
            waits = [w / 2 for w in waits]
        if i % 3 == 2:
            # several coroutines sleeping for the very same time
            waits = [rng.choice([2, 3, 3, 5, 8]) for _ in range(nc)]
        yield {'mode': 'restart', 'waits': waits,
               'lead': [rng.choice([0.5, 1]) for _ in range(rng.randint(0, 2))],
               'restart': rng.sample(range(nc), rng.randint(1, 3)),
               'promise_kill': rng.random() < 0.5,
               'dts': [rng.choice([1, 1, 1, 0.5, 2])
                       for _ in range(4 * nc + 4)]}
    n = 8000 if tier == 'quick' else 16 * 20000
    for i in range(n):
        yield gen_one(random.Random(f'C08/{seed}/{tier}/{i}'), tier)


def run_restart(case):
    """All coroutines yield their wait in the first frame. Those listed in
    `restart` are killed and started again while asleep (not judged after
    that: what a restarted sleeper does is C09's subject); every other one
    must take its second step in the first frame by which the dt
    accumulated since its yield reaches its wait, and never again."""
    from fractions import Fraction
    desper = import_desper()
    res = Res()
    proc = desper.CoroutineProcessor()
    frame = [0]
    log = []

    def body(uid, wait):
        log.append((frame[0], uid, 0))
        yield wait
        log.append((frame[0], uid, 1))
        yield
        log.append((frame[0], uid, 2))

    waits = case['waits']
    gens = [body(k, w) for k, w in enumerate(waits)]
    promises = [proc.start(g) for g in gens]
    proc.process(0)
    acc = Fraction(0)
    expected = {}
    restarted = set()

    def frame_of(dt):
        nonlocal acc
        frame[0] += 1
        acc += Fraction(dt)
        for k, w in enumerate(waits):
            if k not in restarted and k not in expected \
                    and acc >= Fraction(w):
                expected[k] = frame[0]
        proc.process(dt)

    try:
        for dt in case['lead']:
            frame_of(dt)
        for k in case['restart']:
            if k in expected:
                continue        # already awake: an ordinary kill, not ours
            restarted.add(k)
            if case['promise_kill']:
                promises[k].kill()
            else:
                proc.kill(gens[k])
            proc.start(gens[k])
        for dt in case['dts']:
            frame_of(dt)
    except Exception as ex:
        res.div(frame[0], 'process-raised', f'{type(ex).__name__}: {ex}',
                'no exception', repr(ex))
        return res
    for k in range(len(waits)):
        if k in restarted:
            continue
        res.stats['wakeups_checked'] += 1
        got = [f for f, uid, step in log if uid == k and step == 1]
        want = [expected[k]] if k in expected else []
        if got != want:
            res.div(want[0] if want else frame[0],
                    'late-wake' if want and (not got or got[0] > want[0])
                    else 'early-wake' if got and (not want
                                                  or got[0] < want[0])
                    else 'double-step',
                    f'coroutine {k} (yielded {waits[k]}) took its step after '
                    'the wait in another frame than the first one by which '
                    'the accumulated dt reached its wait; coroutines '
                    f'{sorted(restarted)} had been killed and started again '
                    'while asleep', expected=want, observed=got)
            return res
    res.nontrivial = bool(restarted) and len(waits) - len(restarted) >= 2
    res.tags['flags'].add('sleeper-restarted')
    res.tags['sleepers'].add(len(waits))
    res.sample = {'sleepers': len(waits), 'restarted': sorted(restarted)}
    return res


def run_case(case):
    if case.get('mode') == 'restart':
        return run_restart(case)
    desper = import_desper()
    res = Res()
    proc = desper.CoroutineProcessor()
    log = []
    frame = [0]
    nc = len(case['coros'])
    gens = [None] * nc
    started = [False] * nc
    spawned_now = set()

    def yield_of(item):
        return item.get('y') if isinstance(item, dict) else item

    def body(uid, script):
        for i, item in enumerate(script):
            log.append((frame[0], uid, i))
            if isinstance(item, dict) and item.get('raise'):
                # (every other time an exception that is NOT an Exception:
                # KeyboardInterrupt-like; the program catches it all the same)
                fault.append((HarnessInterrupt if (uid + len(fault)) % 2
                              else HarnessError)(
                    f'coroutine {uid} raises'))
                raise fault[-1]
            if isinstance(item, dict) and item.get('bad'):
                import decimal
                offender.add(uid)
                yield {'str': '2', 'list': [1], 'huge': 10 ** 400,
                       'decimal': decimal.Decimal('0.5'),
                       'nan': float('nan')}[item['bad']]
                continue
            if isinstance(item, dict) and 'spawn' in item:
                k = item['spawn']
                if not started[k]:
                    start(k, inside=True)
            yield yield_of(item)
        log.append((frame[0], uid, len(script)))

    def start(k, inside=False):
        started[k] = True
        gens[k] = body(k, case['coros'][k]['script'])
        proc.start(gens[k])
        model[k] = {'state': 'runnable', 'next': 0}
        if inside:
            spawned_now.add(k)

    model = {}
    fault = []
    offender = set()    # coroutines that yielded an unusable value
    judged_out = set()
    waits_started = {}          # uid -> frame at which the wait started
    overlap_uneven = False
    prev_order = None
    prev_stay = set()
    prev_settled = set()
    waiting_before = False

    for f, dt in enumerate(case['dts']):
        frame[0] = f
        for k, spec in enumerate(case['coros']):
            if spec['start'] == f and not started[k]:
                start(k)
        spawned_now.clear()
        expected = set()
        for k, m in model.items():
            if m['state'] == 'runnable':
                expected.add(k)
            elif m['state'] == 'waiting':
                m['acc'] += Fraction(dt)
                if m['acc'] >= m['n']:
                    expected.add(k)
                    m['woken'] = True
        before = len(log)
        failed = False
        nfaults = len(fault)
        try:
            proc.process(dt)
        except (Exception, HarnessInterrupt) as ex:
            if len(fault) == nfaults + 1 and ex is fault[-1]:
                # the frame was abandoned where the body raised
                failed = True
                res.stats['frames_failed_by_a_raising_body'] += 1
            elif offender - judged_out and isinstance(
                    ex, (TypeError, OverflowError, ValueError)):
                # ... or where the unusable value was refused
                failed = True
                res.stats['frames_failed_by_an_unusable_yield'] += 1
            else:
                res.div(f, 'process-raised', f'{type(ex).__name__}: {ex}',
                        'no exception', repr(ex))
                break
            del ex
        if len(fault) == nfaults + 1 and not failed:
            res.div(f, 'fault-not-propagated', 'a coroutine raised but '
                    'process() returned normally', repr(fault[-1]), None)
            break
        if offender - judged_out:
            # from the frame of the unusable yield on, that coroutine is
            # not judged any more (nor expected to step)
            judged_out |= offender
            res.tags['unusable_yield'].add('raised' if failed else 'accepted')
        steps = [e for e in log[before:] if e[1] not in judged_out
                 or e[1] in expected and e[1] not in offender]
        steps = [e for e in log[before:] if e[1] not in judged_out]
        expected -= judged_out
        res.stats['frames'] += 1
        res.stats['steps_checked'] += len(steps)
        seen = {}
        order = []
        for (_, uid, idx) in steps:
            m = model[uid]
            if uid in seen:
                res.div(f, 'double-step', f'coroutine {uid} advanced twice in '
                        'one frame', 1, 2)
                break
            seen[uid] = idx
            order.append(uid)
            if uid not in expected and uid not in spawned_now:
                if m['state'] == 'waiting':
                    res.div(f, 'woke-early', f'coroutine {uid} resumed after '
                            f'{m["acc"]} of a wait of {m["n"]}',
                            f'resume once accumulated dt >= {m["n"]}',
                            f'resumed at {m["acc"]}', dts=case['dts'][:f + 1],
                            wait_started_frame=waits_started.get(uid))
                else:
                    res.div(f, 'unexpected-step', f'coroutine {uid} advanced '
                            f'in state {m["state"]}', 'no step', idx)
                break
            if idx != m['next']:
                res.div(f, 'wrong-step', f'coroutine {uid} ran step {idx}',
                        m['next'], idx)
                break
        if res.divs:
            break
        for uid in expected:
            if failed:
                break       # the coroutines after the raising one wait
            if uid not in seen:
                m = model[uid]
                if m['state'] == 'waiting':
                    res.div(f, 'woke-late', f'coroutine {uid} not resumed '
                            f'although {m["acc"]} >= {m["n"]} has elapsed '
                            'since its yield',
                            'resumed in this frame', 'not resumed',
                            dts=case['dts'][:f + 1],
                            wait_started_frame=waits_started.get(uid))
                else:
                    res.div(f, 'missed-step', f'runnable coroutine {uid} was '
                            'not advanced in this frame', 1, 0)
                break
        if res.divs:
            break
        # relative order of the coroutines that stayed runnable
        if prev_order is not None and not failed:
            # only coroutines that were already settled in the previous frame
            # (runnable at its start: neither woken nor started in it - their
            # position in that frame is a don't-care) and stayed runnable
            both = [u for u in prev_order if u in prev_stay
                    and u in prev_settled and u in seen]
            now = [u for u in order if u in set(both)]
            res.stats['order_comparisons'] += 1
            if both != now:
                res.div(f, 'order-changed', 'coroutines that stayed runnable '
                        'changed their relative order', both, now)
                break
        # advance the model with what each step yielded
        stay = set()
        for uid, idx in seen.items():
            m = model[uid]
            script = case['coros'][uid]['script']
            if m['state'] == 'waiting':
                res.stats['wakeups_checked'] += 1
                waits_started.pop(uid, None)
            if idx >= len(script) or (isinstance(script[idx], dict)
                                      and script[idx].get('raise')):
                m['state'] = 'done'
                continue
            y = yield_of(script[idx])
            m['next'] = idx + 1
            if y is not None and y > 0:
                m.update(state='waiting', n=Fraction(y), acc=Fraction(0))
                waits_started[uid] = f
            else:
                m['state'] = 'runnable'
                stay.add(uid)
        for uid in spawned_now:
            if uid not in seen:
                res.stats['dontcare_spawn_next_frame'] += 1
        if failed:
            # the frame was abandoned half way: the order reference stays
            # the last complete frame; coroutines that left the runnable
            # state (or ended) in the part that did run drop out of it
            prev_stay = {u for u in prev_stay
                         if model[u]['state'] == 'runnable'}
            res.tags['runnable_left_behind_by_failed_frame'].add(
                min(3, len([u for u in expected if u not in seen])))
        else:
            prev_settled = set(prev_stay)
            prev_order, prev_stay = order, stay
        nwait = len(waits_started)
        res.tags['simultaneous_waiters'].add(min(nwait, 6))
        if nwait >= 2:
            res.stats['frames_with_2plus_waiters'] += 1
            if len(set(waits_started.values())) >= 2 \
                    and len(set(case['dts'][:f + 1])) >= 2:
                overlap_uneven = True
        if waiting_before and nwait == 0:
            res.stats['wait_set_emptied'] += 1
        waiting_before = nwait > 0
    res.nontrivial = overlap_uneven
    res.sample = {'steps': [list(s) for s in log][:20], 'frames': frame[0] + 1}
    return res


def shrink(case):
    if case.get('mode') == 'restart':
        if case['dts']:
            yield dict(case, dts=case['dts'][:-1])
        if case['lead']:
            yield dict(case, lead=case['lead'][:-1])
        if len(case['restart']) > 1:
            for k in case['restart']:
                yield dict(case, restart=[x for x in case['restart']
                                          if x != k])
        n = len(case['waits'])
        for i in range(n):
            if i not in case['restart'] and n > 2:
                yield dict(case, waits=case['waits'][:i]
                           + case['waits'][i + 1:],
                           restart=[x - (x > i) for x in case['restart']])
        return
    coros = case['coros']
    for i in range(len(coros)):
        if len(coros) > 1:
            def fix(item, i=i):
                if isinstance(item, dict) and 'spawn' in item:
                    k = item['spawn']
                    if k == i:
                        return item['y']
                    return {'spawn': k - (k > i), 'y': item['y']}
                return item
            rest = [dict(c, script=[fix(x) for x in c['script']])
                    for j, c in enumerate(coros) if j != i]
            yield dict(case, coros=rest)
    if len(case['dts']) > 1:
        yield dict(case, dts=case['dts'][:-1])
    for i, c in enumerate(coros):
        for j in range(len(c['script'])):
            new = [dict(x) for x in coros]
            new[i]['script'] = c['script'][:j] + c['script'][j + 1:]
            yield dict(case, coros=new)


def classify(case, div):
    if case.get('nondyadic') and div['kind'] in ('woke-early', 'woke-late'):
        return 'float-timer-rounding'
    return None
