"""C05 - Deferred entity deletion is applied at the next process, safely."""
import collections
import os
import random

from vf.core import Res, HarnessError
from vf import worldlib as wl

ID = 'C05'
LEVEL = 'exploration'
RULE = ('World histories dense in delete_entity(e) followed - before the next '
        'process() - by every other operation on the SAME id (components '
        'removed one by one, added, replaced, deleted again, deleted '
        'immediately, re-created) and on other ids, then 1-4 process() calls; '
        '1-3 logging processors; handler and non-handler components; injected '
        'fault: one processor raises once; sub-workload: delete_entity of an '
        'id that never existed (the pinned suite requires KeyError from the '
        'next process()) after which the following process() must succeed. '
        'Monitor: one log interleaving lifecycle callbacks and '
        'Processor.process entries, query sweep (get_components, '
        'has_component, entity_exists, entities) for every id after every '
        'operation. Non-trivial = the deleted id is touched again between '
        'delete_entity and process.')
ANCHORS = [
    'desper/logic/world.py::World.delete_entity',
    'desper/logic/world.py::World._clear_dead_entities',
    'desper/logic/world.py::World.process',
    'desper/logic/world.py::World.remove_component',
]
MIN_NONTRIVIAL = {'quick': 300, 'thorough': 5000}
MIN_STATS = {'process_calls_checked': 2000,
             'deferred_deletions_applied': 500}
ASSUMPTIONS = [
    "don't-care: an id whose row vanished while pending and that is populated "
    'again before the next process() (existence not judged until then)',
    'callbacks that mutate the world from inside on_remove during the flush '
    'are not generated',
    'dispatching stays enabled (postponement is the subject of C02)',
]


def gen_one(rng, tier):
    big = tier == 'thorough' and rng.random() < 0.5
    ncls = rng.randint(3, 5)
    case = {'classes': wl.gen_classes(rng, ncls, wl.SHAPES),
            'ids': wl.gen_ids(rng, rng.randint(3, 4), aliases=False),
            'procs': rng.randint(0, 3), 'ops': []}
    ops = case['ops']
    nids = len(case['ids'])

    def other_ref():
        return wl.gen_ref(rng, case, auto_bias=0.4)

    for _ in range(rng.randint(1, 5 if big else 3)):
        focus = ['x', rng.randrange(nids)]
        # populate
        for _ in range(rng.randint(0, 2)):
            ops.append(['create', rng.sample(range(ncls), rng.randint(1, 2)),
                        None])
        ops.append(['create', rng.sample(range(ncls), rng.randint(1, 3)),
                    focus])
        if rng.random() < 0.3:
            ops.append(['process', 1])
        ops.append(['delete', focus, False])
        # the interesting window
        for _ in range(rng.randint(0, 6)):
            ref = focus if rng.random() < 0.7 else other_ref()
            k = rng.random()
            if k < 0.35:
                ops.append(['remove', ref, rng.randrange(ncls)])
            elif k < 0.55:
                ops.append(['add', ref, rng.randrange(ncls)])
            elif k < 0.65:
                ops.append(['delete', ref, False])
            elif k < 0.78:
                ops.append(['delete', ref, True])
            elif k < 0.9:
                ops.append(['create',
                            rng.sample(range(ncls), rng.randint(1, 2)),
                            ref if ref[0] == 'x' else None])
            elif k < 0.95:
                ops.append(['probe'])
            else:
                ops.append(['delghost', rng.randrange(2)])
        for i in range(rng.randint(1, 4)):
            if case['procs'] and rng.random() < 0.12:
                ops.append(['process', rng.choice([0, 1, 0.5]),
                            rng.randrange(case['procs'])])
            elif rng.random() < 0.08:
                # fault: the k-th on_remove of this flush raises
                ops.append(['process', rng.choice([0, 1]), None,
                            rng.randrange(3)])
            else:
                ops.append(['process', rng.choice([0, 1, 0.5])])
            if rng.random() < 0.3:
                ops.append(['create',
                            rng.sample(range(ncls), rng.randint(1, 2)),
                            focus])
    return case


def gen_scale(rng):
    ncls = 4
    case = {'classes': wl.gen_classes(rng, ncls, wl.SHAPES),
            'ids': list(range(1, 80)), 'procs': 2, 'ops': []}
    ops = case['ops']
    for k in range(60):
        ops.append(['create', rng.sample(range(ncls), rng.randint(1, 2)),
                    ['x', k]])
    for k in rng.sample(range(60), 45):
        ops.append(['delete', ['x', k], False])
    if rng.random() < 0.6:
        ops.insert(rng.randrange(61, len(ops)), ['delghost', 0])
    ops += [['process', 1], ['process', 1], ['process', 0.5], ['process', 1]]
    return case


def gen_cases(tier, seed):
    for i in range(4 if tier == 'quick' else 64):
        yield gen_scale(random.Random(f'C05/scale/{seed}/{tier}/{i}'))
    n = 4000 if tier == 'quick' else 16 * 5000
    for i in range(n):
        yield gen_one(random.Random(f'C05/{seed}/{tier}/{i}'), tier)


class C05Driver(wl.Driver):
    def __init__(self, case, res):
        super().__init__(case, res)
        driver = self
        self.fault_at = None        # processor index that raises this frame
        self.ghost_pending = set()
        self.failed_last_frame = None
        self.window = {}            # id -> ops since its delete_entity
        self.touched_in_window = False
        self.fault_obj = None
        self.flushing = None        # set while process() runs
        self.remove_fault = None    # countdown to a raising on_remove
        self.remove_fault_obj = None
        self.broken = set()         # ids left half-flushed by such a fault

        def make_proc(i):
            def process(self_, dt=1):
                driver.seq += 1
                driver.log.append({'seq': driver.seq, 'kind': 'proc',
                                   'uid': i, 'dt': dt})
                if driver.fault_at == i:
                    driver.fault_at = None
                    driver.fault_obj = HarnessError(f'fault in processor {i}')
                    raise driver.fault_obj
            return type(f'LP{i}', (self.desper.Processor,),
                        {'process': process, 'priority': i % 2})
        for i in range(case.get('procs', 0)):
            p = make_proc(i)()
            self.procs.append(p)
            self.world.add_processor(p)

    def in_callback(self, comp, kind, args):
        if kind == 'remove' and self.flushing is not None \
                and 'seen_alive' not in self.flushing \
                and not os.environ.get('VF_TREE_PREDATES_AAD6AA0'):
            # read-only probe from inside an on_remove of the flush: every
            # entity whose deletion was requested must not exist (it is
            # either still awaiting deletion or already gone)
            try:
                ents = self.world.entities
                for e in self.flushing['pending']:
                    if e in self.broken:
                        continue
                    self.res.stats['existence_reads_inside_flush'] += 1
                    if self.world.entity_exists(e) or e in ents:
                        self.flushing['seen_alive'] = e
                        break
            except Exception as ex:
                self.flushing['seen_alive'] = repr(ex)
        if kind == 'remove' and self.remove_fault is not None:
            if self.remove_fault == 0:
                self.remove_fault = None
                self.remove_fault_obj = HarnessError('fault in on_remove')
                self.broken.add(args[0])
                raise self.remove_fault_obj
            self.remove_fault -= 1

    def execute(self, at, op):
        # an entity whose flush was interrupted by a raising on_remove is in
        # an unspecified state: never touched (nor judged) again
        ref = op[1] if op[0] in ('add', 'readd', 'remove', 'delete') else (
            op[2] if op[0] == 'create' else None)
        if isinstance(ref, list) and self.broken:
            e, ok = self.resolve(ref)
            if ok and e in self.broken:
                return None
        if op[0] == 'delghost':
            e = ('never', op[1])     # no other operation uses these ids
            self.mention(e)
            del self.log[:]
            self.model.trans = []
            rec = {'at': at, 'op': op, 'enabled_before': True, 'note': {},
                   'entity': e}
            rec['ret'], rec['exc'] = self.call(self.world.delete_entity, e)
            self.ghost_pending.add(e)
            rec['trans'], rec['slice'] = [], list(self.log)
            rec['enabled_after'] = True
            return rec
        return super().execute(at, op)

    def before_process(self, rec):
        op = rec['op']
        self.fault_at = op[2] if len(op) > 2 else None
        self.fault_obj = None
        self.remove_fault = op[3] if len(op) > 3 else None
        self.remove_fault_obj = None
        self.flushing = {'pending': set(self.model.pending)
                         - set(self.model.fuzzy)}
        rec['injected'] = self.fault_at is not None
        rec['ghost'] = len(self.ghost_pending)

    def model_process(self, rec):
        m = self.model
        self.remove_fault = None
        rec['seen_alive'] = (self.flushing or {}).get('seen_alive')
        self.flushing = None
        if self.remove_fault_obj is not None:
            # the flush was interrupted: which of the other pending entities
            # were already flushed is not stated; the interrupted one is
            # forgotten by the model
            rec['remove_fault_fired'] = True
            for e in list(m.pending | self.broken):
                try:
                    left = self.world.get_components(e)
                except Exception:
                    left = ()
                if len(left) == 0 or e in self.broken:
                    m.detach_all(e)
                    m.pending.discard(e)
            return
        if rec['ghost'] and isinstance(rec['exc'], KeyError):
            # pinned by the suite: the frame may fail; which of the other
            # pending entities were flushed before the failure is not stated
            self.res.stats['dontcare_ghost_frame'] += 1
            for e in list(m.pending):
                try:
                    left = self.world.get_components(e)
                except Exception:
                    left = ()
                if len(left) == 0:
                    m.detach_all(e)
                    m.pending.discard(e)
            rec['ghost_failed'] = True
            # the invalid mark(s) named by the KeyError were consumed; how
            # the ids are packed into the exception is not stated. If none
            # can be recognised, one (unknown which) is taken as consumed.
            named = set()

            def scan(x):
                try:
                    if x in self.ghost_pending:
                        named.add(x)
                        return
                except TypeError:
                    pass
                if isinstance(x, (list, tuple, set, frozenset)):
                    for y in x:
                        scan(y)
            scan(rec['exc'].args)
            if named:
                self.ghost_pending -= named
            else:
                self.ghost_pending.pop()
        else:
            m.process()
            self.ghost_pending.clear()

    def after_op(self, at, rec):
        res, m, w = self.res, self.model, self.world
        op = rec['op']
        name = op[0]
        e = rec.get('entity')

        # window bookkeeping (non-triviality: deleted id touched again)
        if name == 'delete' and not op[2] and e not in self.window:
            self.window[e] = 0
        elif name in ('create', 'add', 'remove', 'delete') and e in self.window:
            self.window[e] += 1
            self.touched_in_window = True
            res.tags['window_op'].add(name + (str(op[2]) if name == 'delete'
                                              else ''))
        if name == 'process':
            self.window.clear()

        if name == 'process' and rec.get('seen_alive') is not None \
                and not rec.get('ghost'):
            res.div(at, 'exists-during-flush', 'an on_remove callback of the '
                    'flush saw an entity whose deletion had been requested as '
                    'existing', 'not existing', rec['seen_alive'])
            return
        if name == 'process':
            res.stats['process_calls_checked'] += 1
            exc = rec['exc']
            if rec.get('remove_fault_fired'):
                if exc is not self.remove_fault_obj:
                    res.div(at, 'fault-not-propagated', 'an on_remove '
                            'callback raised during the flush but process() '
                            'did not propagate that exception',
                            expected=repr(self.remove_fault_obj),
                            observed=repr(exc))
                    return
                self.failed_last_frame = 'on_remove-fault'
                res.stats['injected_remove_faults'] += 1
                return
            if rec.get('ghost_failed'):
                self.failed_last_frame = 'ghost'
            elif rec['injected'] and self.fault_obj is not None:
                if exc is not self.fault_obj:
                    res.div(at, 'fault-not-propagated', 'a processor raised '
                            'but process() did not propagate that exception',
                            expected=repr(self.fault_obj), observed=repr(exc))
                    return
                self.failed_last_frame = 'fault'
                res.stats['injected_faults'] += 1
            elif exc is not None:
                kind = ('process-fails-after-failed-frame'
                        if self.failed_last_frame else 'process-raised')
                res.div(at, kind, 'process() raised although every deferred '
                        'deletion named an entity that existed when '
                        'delete_entity was called'
                        + (' (frame after a failed one)'
                           if self.failed_last_frame else ''),
                        expected='no exception', observed=repr(exc),
                        after_failed=self.failed_last_frame)
                return
            else:
                if self.failed_last_frame:
                    res.stats['frames_recovering_after_failure'] += 1
                self.failed_last_frame = None
            # all removals are notified before any processor runs
            first_proc = None
            for x in rec['slice']:
                if x['kind'] == 'proc' and first_proc is None:
                    first_proc = x['seq']
                if x['kind'] == 'remove' and first_proc is not None:
                    res.div(at, 'flush-after-processor', 'an on_remove of a '
                            'deferred deletion was delivered after a '
                            'processor of that frame had run',
                            expected='all on_remove before any processor',
                            observed=[[y['kind'], y['uid']]
                                      for y in rec['slice']])
                    return
            if not rec.get('ghost_failed'):
                # an entity whose flush was interrupted by a raising
                # on_remove may be finished by a later frame: not judged
                got = collections.Counter(
                    (x['uid'], repr(x['entity'])) for x in rec['slice']
                    if x['kind'] == 'remove'
                    and x['entity'] not in self.broken)
                want = collections.Counter(
                    (uid, repr(ent)) for kind, uid, ent in rec['trans']
                    if kind == 'remove'
                    and 'on_remove' in self.events_of(self.comps[uid]))
                if got != want:
                    res.div(at, 'flush-notifications', 'process(): on_remove '
                            'notifications differ from the components of the '
                            'entities awaiting deletion (once each)',
                            expected=sorted(want.elements()),
                            observed=sorted(got.elements()))
                    return
                res.stats['deferred_deletions_applied'] += len(
                    rec['pending_before'])
                procs = [x['uid'] for x in rec['slice'] if x['kind'] == 'proc']
                if not rec['injected'] and sorted(procs) != sorted(
                        range(len(self.procs))):
                    res.div(at, 'processors-not-run', 'processors of the '
                            'frame did not each run once',
                            expected=list(range(len(self.procs))),
                            observed=procs)
                    return
        elif rec['exc'] is not None:
            res.div(at, 'operation-raised', f'{name} raised '
                    f'{type(rec["exc"]).__name__}: {rec["exc"]}',
                    expected='no exception', observed=repr(rec['exc']), op=op)
            return

        # step 1 of delete_entity: gone for entity_exists, still queryable
        ids = [x for x in self.mentioned if x not in self.broken]
        try:
            ents = list(w.entities)
            for x in ids:
                row = m.rows.get(x, {})
                got = collections.Counter(c.uid for c in w.get_components(x))
                want = collections.Counter(c.uid for c in row.values())
                res.stats['query_comparisons'] += 1
                if got != want:
                    res.div(at, 'components-mismatch',
                            f'get_components({x!r}) after {name}',
                            expected=sorted(want.elements()),
                            observed=sorted(got.elements()), op=op)
                    return
                for t, c in row.items():
                    res.stats['query_comparisons'] += 1
                    if not w.has_component(x, t) \
                            or w.get_component(x, t) is not c:
                        res.div(at, 'components-mismatch', 'component of '
                                f'{x!r} not queryable after {name}',
                                expected=c.uid, observed=None, op=op)
                        return
                if x in m.fuzzy:
                    res.stats['dontcare_fuzzy_existence'] += 1
                    continue
                want_exists = x in m.rows and x not in m.pending
                res.stats['query_comparisons'] += 2
                if w.entity_exists(x) != want_exists \
                        or (x in ents) != want_exists:
                    res.div(at, 'existence-mismatch',
                            f'entity_exists({x!r}) / entities after {name}',
                            expected=want_exists,
                            observed=[w.entity_exists(x), x in ents], op=op,
                            pending=x in m.pending)
                    return
        except Exception as ex:
            res.div(at, 'query-raised', f'a query raised after {name}',
                    expected='no exception', observed=repr(ex))
            return
        res.tags['abstract_state'].add(
            (len(m.rows), len(m.pending), len(m.fuzzy)))

    def finish(self, at):
        self.res.nontrivial = self.touched_in_window


def run_case(case):
    res = Res()
    driver = C05Driver(case, res)
    driver.run()
    res.sample = {'ops_executed': res.stats['ops'],
                  'callbacks': res.stats['callbacks'],
                  'window_ops': sorted(res.tags.get('window_op', ()))}
    return res


def classify(case, div):
    return None
