"""C02 - Component lifecycle callbacks fire exactly once per attach/detach."""
import collections
import random

from vf import session
from vf.core import Res
from vf import worldlib as wl
from vf import reentry

ID = 'C02'
LEVEL = 'exploration'
RULE = ('C01-style World histories plus dispatch_enabled toggles, probe '
        'dispatches and re-attachment of detached instances; components of '
        'five handler shapes ({on_add,on_remove,probe}, {on_add,probe}, '
        '{on_remove,probe}, {probe}, none), 30% with renamed callback '
        'methods, single inheritance between handler classes. Every callback '
        'logs (instance, kind, entity, world-is-real, dispatch_enabled at '
        'call). After every operation: the lifecycle entries of that '
        "operation's log slice must equal the transitions the reference model "
        'derives (enabled), or be empty and re-appear at the enabling '
        'assignment grouped by originating operation in operation order '
        '(disabled); is_handler(c) == attached for every instance ever '
        'created; a probe reaches exactly the attached probe listeners. '
        'Non-trivial = >=2 lifecycle callbacks postponed across one disable/'
        'enable cycle, or detaches by >=2 different routes.'
        ' Rounds 9-13 added (vf/reentry.py): nested batches inside a release'
        ' (disable, attach/detach, enable; or a raising callback, the'
        ' program enabling again), a second World listening to the world,'
        ' components nobody refers to that are owed postponed callbacks, the'
        ' pinned suite under the registration invariant.'
        ' Round 14 added: lifecycle mappings inherited through an'
        ' undecorated class with two handler bases; classes decorated twice.')
ANCHORS = [
    'desper/logic/world.py::World.create_entity',
    'desper/logic/world.py::World.add_component',
    'desper/logic/world.py::World.remove_component',
    'desper/logic/world.py::World.delete_entity',
    'desper/logic/world.py::World._clear_dead_entities',
    'desper/logic/world.py::World._on_single_dispatch',
    'desper/logic/world.py::World.clear',
    'desper/events.py::EventDispatcher.clear',
]
MIN_NONTRIVIAL = {'quick': 200, 'thorough': 5000}
MIN_STATS = {'lifecycle_callbacks_checked': 5000, 'is_handler_checks': 20000}
ASSUMPTIONS = [
    "don't-care: delivery (not registration) of callbacks owed to instances "
    'attached or still owed a postponed callback when clear() is called on a '
    'DISABLED world (docstrings say pending events are dropped)',
    'order of callbacks inside one operation is not judged',
    'the harness keeps a strong reference to every component',
    'an instance is attached to at most one entity at a time',
    'create_entity over an existing id that already holds the same type is '
    'generated in every fourth history only (own input class)',
]

WEIGHTS = {'create': 20, 'add': 22, 'readd': 6, 'remove': 14, 'delete': 8,
           'delete_now': 6, 'process': 10, 'clear': 3, 'toggle': 9,
           'enable_same': 2, 'probe': 8, 'bounce': 5}


def gen_one(rng, tier, index):
    big = tier == 'thorough' and rng.random() < 0.5
    case = {'classes': wl.gen_classes(rng, rng.randint(3, 6), wl.SHAPES),
            'ids': wl.gen_ids(rng, rng.randint(3, 5), aliases=False),
            'allow_over': index % 4 == 0,
            'ops': []}
    weights = dict(WEIGHTS)
    if rng.random() < 0.4:
        weights['toggle'] = 0       # 60% of histories contain toggles
        weights['enable_same'] = 0
    wl.gen_ops(rng, case, rng.randint(1, 60 if big else 30), weights)
    return case


def gen_cases(tier, seed):
    # the repository's own tests as a workload (vf/suite_monitor.py)
    yield {'scenario': 'suite'}
    # whole "game sessions" (vf/session.py): the features used together,
    # judged by the self-consistency invariants of this property
    for i in range(150 if tier == 'quick' else 16 * 300):
        yield session.gen(random.Random(f'C02/session/{seed}/{tier}/{i}'),
                          tier)
    for later in ('add', 'create', 'remove'):
        for first in ('add', 'create'):
            yield {'scenario': 'release-interrupted', 'first': first,
                   'later': later}
    for where in ('single', 'first', 'second'):
        for stacked in (False, True):
            for disabled in (False, True):
                yield {'scenario': 'lineage', 'where': where,
                       'stacked': stacked, 'disabled': disabled}
    for i in range(3 if tier == 'quick' else 48):
        rng = random.Random(f'C02/scale/{seed}/{tier}/{i}')
        case = {'classes': wl.gen_classes(rng, 6, wl.SHAPES),
                'ids': list(range(1, 120)), 'allow_over': False, 'ops': []}
        for k in range(100):
            case['ops'].append(['create', rng.sample(range(6), 2),
                                ['x', k]])
        for k in rng.sample(range(100), 80):
            case['ops'].append(['delete', ['x', k], False])
            if rng.random() < 0.05:
                case['ops'].append(['probe'])
        if rng.random() < 0.5:
            case['ops'].insert(150, ['enable', False])
            case['ops'] += [['process', 1], ['enable', True]]
        else:
            case['ops'].append(['process', 1])
        case['ops'] += [['probe'], ['clear'], ['probe']]
        yield case
    n = 4000 if tier == 'quick' else 16 * 5000
    for i in range(n):
        if i % 8 == 0:
            # an on_remove callback touches the world again (vf/reentry.py)
            yield reentry.gen(random.Random(f'C02/re/{seed}/{tier}/{i}'))
        if i % 40 == 7:
            # an on_add disables dispatching in the middle of create_entity
            yield reentry.gen_disable(
                random.Random(f'C02/dis/{seed}/{tier}/{i}'))
        if i % 40 == 3:
            # a released on_add detaches a component whose own postponed
            # on_add is still queued
            yield reentry.gen_overtake(
                random.Random(f'C02/ot/{seed}/{tier}/{i}'))
        if i % 20 == 11:
            # a released callback runs a batch of its own (disable, attach/
            # detach, enable) while older postponed callbacks are still owed
            yield reentry.gen_nested(
                random.Random(f'C02/nest/{seed}/{tier}/{i}'))
        if i % 20 == 5:
            # components nobody refers to, attached/detached while disabled
            yield reentry.gen_unref(
                random.Random(f'C02/unref/{seed}/{tier}/{i}'))
        yield gen_one(random.Random(f'C02/{seed}/{tier}/{i}'), tier, i)


def run_lineage(case):
    """Component classes that get their lifecycle mapping from further up:
    a decorated class whose direct base is an UNDECORATED class deriving
    from two handler classes (on_add/on_remove declared by the one named in
    `where`), also decorated twice. Attached, replaced and removed with
    dispatching enabled or disabled: on_add and on_remove once each."""
    from vf import import_desper
    desper = import_desper()
    res = Res()
    log = []

    class Life:
        def on_add(self, entity, world):
            log.append((self.uid, 'add', entity, world))

        def on_remove(self, entity, world):
            log.append((self.uid, 'remove', entity, world))

        def ping(self, *args):
            log.append((self.uid, 'ping'))
    Life = desper.event_handler('on_add', 'on_remove')(Life)

    @desper.event_handler('ping')
    class Pinged:
        def ping(self, *args):
            log.append((self.uid, 'ping'))

    if case['where'] == 'second':
        class Mid(Pinged, Life):
            pass
    elif case['where'] == 'first':
        class Mid(Life, Pinged):
            pass
    else:
        class Mid(Life):
            pass

    class Comp(Mid):
        def pong(self, *args):
            log.append((self.uid, 'pong'))
    if case['stacked']:
        Comp = desper.event_handler('pong')(
            desper.event_handler(extra='pong')(Comp))
    else:
        Comp = desper.event_handler('pong', extra='pong')(Comp)
    w = desper.World()
    if case['disabled']:
        w.dispatch_enabled = False
    a, b = Comp(), Comp()
    a.uid, b.uid = 'a', 'b'
    e = w.create_entity(a)
    w.add_component(e, b)           # replaces a
    w.remove_component(e, Comp)
    if case['disabled']:
        if log:
            res.div(0, 'callback-while-disabled', 'a lifecycle callback ran '
                    'while dispatching was disabled', [], [x[:2] for x in log])
            return res
        w.dispatch_enabled = True
    got = [x[:2] for x in log]
    want = [('a', 'add'), ('a', 'remove'), ('b', 'add'), ('b', 'remove')]
    res.stats['callback_sequences_checked'] += 2
    if got != want or any(x[2] != e or x[3] is not w for x in log):
        res.div(1, 'lineage-lifecycle', 'a component class that inherits '
                'on_add/on_remove through an undecorated class with '
                f'{case["where"]!r} handler base(s)'
                + (', decorated twice' if case['stacked'] else '')
                + ': lifecycle callbacks', want, got)
        return res
    want_events = {'on_add', 'on_remove', 'pong', 'extra'} | (
        {'ping'} if case['where'] in ('first', 'second') else set())
    if set(Comp.__events__) != want_events:
        res.div(2, 'lineage-mapping', 'event names the class listens to',
                sorted(want_events), sorted(Comp.__events__))
    res.nontrivial = True
    res.tags['lineage'].add((case['where'], case['stacked'],
                             case['disabled']))
    return res


def run_scenario(case):
    """Postponed callbacks are delivered in operation order even when the
    release is interrupted: a postponed on_add disables dispatching again and
    performs a further lifecycle operation (postponed in turn) while older
    callbacks are still pending."""
    from vf import import_desper
    desper = import_desper()
    res = Res()
    log = []
    w = desper.World()

    def make(name, act=None):
        def on_add(self, entity, world):
            log.append(('add', name))
            if act is not None:
                act(entity)

        def on_remove(self, entity, world):
            log.append(('remove', name))
        return desper.event_handler('on_add', 'on_remove')(
            type(name, (), {'on_add': on_add, 'on_remove': on_remove}))()

    victim = make('victim')
    e0 = w.create_entity(victim)
    log.clear()

    def interrupt(entity):
        w.dispatch_enabled = False
        if case['later'] == 'add':
            w.add_component(entity, make('late'))
        elif case['later'] == 'create':
            w.create_entity(make('late'))
        else:
            w.remove_component(e0, type(victim))

    w.dispatch_enabled = False
    first = make('first', interrupt)
    if case['first'] == 'add':
        w.add_component(e0, first)
    else:
        w.create_entity(first)
    w.create_entity(make('second'))
    w.create_entity(make('third'))
    try:
        w.dispatch_enabled = True       # interrupted after 'first'
        mid = list(log)
        w.dispatch_enabled = True       # the remainder, then the late one
    except Exception as ex:
        res.div(0, 'operation-raised', f'{type(ex).__name__}: {ex}',
                'no exception', repr(ex))
        return res
    late = ('remove', 'victim') if case['later'] == 'remove' \
        else ('add', 'late')
    want = [('add', 'first'), ('add', 'second'), ('add', 'third'), late]
    res.stats['lifecycle_callbacks_checked'] += len(log)
    res.stats['is_handler_checks'] += 1
    if mid != want[:1] or log != want:
        res.div(0, 'postponed-release', 'postponed callbacks must be '
                'delivered once each in operation order, also when the '
                'release is interrupted by a callback that disables '
                'dispatching and performs another operation',
                expected=want, observed=log, after_first_enable=mid)
    res.nontrivial = True
    res.sample = {'scenario': case, 'log': log}
    return res


class C02Driver(wl.Driver):
    def __init__(self, case, res):
        super().__init__(case, res)
        self.skip_create_over = not case.get('allow_over', False)
        self.postponed = []         # [(op index, Counter of transitions)]
        self.unjudged = set()       # uids whose delivery is a don't-care
        self.routes = set()
        self.max_postponed_cycle = 0
        self.query_error = None

    def in_callback(self, comp, kind, args):
        """Read-only queries from inside a lifecycle callback: whatever the
        transient state, a query must answer, not raise."""
        if kind not in ('add', 'remove') or self.query_error is not None:
            return
        w = self.world
        try:
            for t in self.classes:
                for e, c in w.get(t):
                    pass
            for e in self.mentioned[:6]:
                w.get_components(e)
                w.entity_exists(e)
                for t in self.classes[:4]:
                    w.has_component(e, t)
                    w.get_component(e, t)
            w.entities
            self.res.stats['query_probes_inside_callbacks'] += 1
        except Exception as ex:
            self.query_error = (kind, comp.uid, f'{type(ex).__name__}: {ex}')

    def expected(self, trans):
        """Transitions that must produce a callback (mapping exists)."""
        out = []
        for kind, uid, e in trans:
            events = self.events_of(self.comps[uid])
            if ('on_add' if kind == 'add' else 'on_remove') in events \
                    and uid not in self.unjudged:
                out.append((kind, uid, _key(e)))
        return out

    def after_op(self, at, rec):
        res, m, w = self.res, self.model, self.world
        op = rec['op']
        name = op[0]
        if rec['exc'] is not None:
            res.div(at, 'operation-raised', f'{name} raised '
                    f'{type(rec["exc"]).__name__}: {rec["exc"]}',
                    expected='no exception', observed=repr(rec['exc']), op=op,
                    enabled_before=rec['enabled_before'])
            return
        if name == 'create' and op[2] is None and rec['note']['auto_taken']:
            res.stats['auto_id_collision_seen(C01)'] += 1
        if self.query_error is not None:
            res.div(at, 'query-raised-in-callback', 'a read-only World query '
                    f'issued from inside an {self.query_error[0]} callback '
                    f'(instance {self.query_error[1]}) raised', 'an answer',
                    self.query_error[2], op=op)
            return

        life = [x for x in rec['slice'] if x['kind'] in ('add', 'remove')
                and x['uid'] not in self.unjudged]
        for x in life:
            res.stats['lifecycle_callbacks_checked'] += 1
            if not x['args_ok']:
                res.div(at, 'wrong-arguments', f'{x["kind"]} callback of '
                        f'instance {x["uid"]} not called with (entity, world)',
                        expected='(entity, the world)', observed=x)
                return
            if not x['enabled']:
                res.div(at, 'callback-while-disabled', 'a lifecycle callback '
                        'ran while dispatching was disabled', expected=None,
                        observed=x)
                return
            if x['kind'] == 'add' and x.get('registered') is not True \
                    and m.where.get(x['uid']) is not None:
                res.div(at, 'not-registered-during-on_add', 'on_add ran for '
                        'an attached component that is not (yet) registered '
                        'as a listener of the world', expected=True,
                        observed=x.get('registered'))
                return
        got = [(x['kind'], x['uid'], _key(x['entity'])) for x in life]
        want = self.expected(rec['trans'])
        for kind, uid, e in rec['trans']:
            if kind == 'remove':
                self.routes.add(name if name != 'delete'
                                else f'delete{op[2]}')
                if name in ('add', 'readd', 'create'):
                    self.routes.add('replace')

        if name == 'enable':
            if op[1] and not rec['enabled_before']:
                pos = 0
                total = sum(sum(g.values()) for _, g in self.postponed)
                self.max_postponed_cycle = max(self.max_postponed_cycle, total)
                for origin, group in self.postponed:
                    size = sum(group.values())
                    seg = collections.Counter(got[pos:pos + size])
                    if seg != group:
                        res.div(at, 'postponed-release', 'callbacks postponed '
                                f'by operation #{origin} were not delivered '
                                'exactly once, in operation order, by the '
                                'enabling assignment',
                                expected=[[o, sorted(g.elements())]
                                          for o, g in self.postponed],
                                observed=got)
                        return
                    pos += size
                if pos != len(got):
                    res.div(at, 'postponed-release', 'the enabling assignment '
                            'delivered lifecycle callbacks nobody was owed',
                            expected=[], observed=got[pos:])
                    return
                if total:
                    res.stats['postponed_callbacks_released'] += total
                    res.tags['postponed_groups'].add(len(self.postponed))
                self.postponed = []
            elif got:
                res.div(at, 'unexpected-callback', 'assignment to '
                        'dispatch_enabled delivered lifecycle callbacks',
                        expected=[], observed=got)
                return
        elif name == 'clear' and not rec['enabled_before']:
            # don't-care: clear() on a disabled world
            owed = {u for _, g in self.postponed for (_, u, _) in g}
            self.unjudged |= owed | set(rec['attached_before'])
            res.stats['dontcare_clear_while_disabled'] += 1
            self.postponed = []
        elif rec['enabled_before']:
            if collections.Counter(got) != collections.Counter(want):
                res.div(at, 'lifecycle-mismatch', f'{name}: lifecycle '
                        'callbacks delivered differ from the attach/detach '
                        'transitions of this operation (exactly once each)',
                        expected=sorted(want), observed=sorted(got), op=op)
                return
        else:
            if got:
                res.div(at, 'callback-while-disabled', f'{name}: lifecycle '
                        'callback delivered although dispatching is disabled',
                        expected=[], observed=got)
                return
            if want:
                self.postponed.append((at, collections.Counter(want)))

        # registration == attachment, for every instance ever created
        for uid, c in self.comps.items():
            if not self.events_of(c):
                continue
            try:
                reg = w.is_handler(c)
            except Exception as ex:
                res.div(at, 'query-raised', 'is_handler raised',
                        expected='bool', observed=repr(ex))
                return
            res.stats['is_handler_checks'] += 1
            attached = m.where.get(uid) is not None
            if reg != attached:
                res.div(at, 'registration-mismatch', f'instance {uid} is '
                        f'{"" if attached else "not "}attached but is_handler '
                        f'says {reg}', expected=attached, observed=reg, op=op)
                return
        try:
            self_listening = w.is_handler(w)
        except Exception as ex:
            self_listening = repr(ex)
        res.stats['world_self_checks'] += 1
        if self_listening is not True and not rec['enabled_after']:
            # the relay of postponed callbacks needs the world to listen
            res.tags['world_not_listening'].add(name)

        if name == 'probe' and rec['enabled_before']:
            got_p = collections.Counter(
                x['uid'] for x in rec['slice'] if x['kind'] == 'probe')
            want_p = collections.Counter(
                uid for uid, e in m.where.items() if e is not None
                and 'probe' in self.events_of(self.comps[uid]))
            res.stats['probe_dispatches_checked'] += 1
            wrong_token = [x for x in rec['slice']
                           if x['kind'] == 'probe' and x['token'] != at]
            if got_p != want_p or wrong_token:
                res.div(at, 'probe-mismatch', 'a world event did not reach '
                        'exactly the attached listeners',
                        expected=sorted(want_p.elements()),
                        observed=sorted(got_p.elements()))
                return
        res.tags['abstract_state'].add(
            (len(m.rows), len(m.pending), rec['enabled_after'],
             min(len(self.postponed), 3)))

    def finish(self, at):
        if self.max_postponed_cycle >= 2 or len(self.routes) >= 2:
            self.res.nontrivial = True
        for r in self.routes:
            self.res.tags['detach_routes'].add(r)


def _key(e):
    return repr(e)


def run_case(case):
    if case.get('scenario') == 'suite':
        from vf import suite_monitor
        return suite_monitor.run_suite(ID)
    if case.get('scenario') == 'session':
        return session.run(case, 'C02')
    if case.get('scenario') == 'reentry':
        return reentry.run(case)
    if case.get('scenario') == 'overtake':
        return reentry.run_overtake(case)
    if case.get('scenario') == 'disable_in_on_add':
        return reentry.run_disable(case)
    if case.get('scenario') == 'nested_batch':
        return reentry.run_nested(case)
    if case.get('scenario') == 'unreferenced':
        return reentry.run_unref(case)
    if case.get('scenario') == 'lineage':
        return run_lineage(case)
    if case.get('scenario'):
        return run_scenario(case)
    res = Res()
    driver = C02Driver(case, res)
    driver.run()
    res.sample = {'ops_executed': res.stats['ops'],
                  'callbacks': res.stats['callbacks'],
                  'detach_routes': sorted(driver.routes),
                  'max_postponed_in_one_cycle': driver.max_postponed_cycle}
    return res


def classify(case, div):
    if case.get('scenario') == 'overtake' and case['victim_after_actor'] \
            and div['kind'] in ('overtake-callbacks-out-of-turn',
                                'overtake-registration'):
        return 'release-overtaken-by-immediate-callback'
    if case.get('scenario') == 'session' and div.get('release_cut') \
            and div['kind'] == 'session-callbacks-not-alternating':
        # same mechanism, other route: a callback raised out of the release
        # (Quit, SwitchWorld, an error), the world stays enabled with
        # callbacks still queued, and the immediate callback of a later
        # operation overtakes them
        return 'release-overtaken-by-immediate-callback'
    return None
