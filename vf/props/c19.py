"""C19 - Controllers, references and prototypes are faithful shorthands."""
import collections
import itertools
import random
from fractions import Fraction

from vf import import_desper
from vf.core import Res, tup, HarnessError

ID = 'C19'
LEVEL = 'exploration'
RULE = ('three workloads. (twin) two worlds are driven through the same '
        'random C01-style history (create, add, replace, remove by exact/base '
        'type, has/get/get_components, deferred delete, process, clear, '
        'processor get/add/remove), world A only with World calls, world B '
        'with the corresponding shorthand (method form on a Controller '
        'attached to the entity, function form desper.add_component(ctl, ..), '
        'ComponentReference/ProcessorReference get/set/delete, '
        'desper.controller(e, w) or a namedtuple satisfying '
        'ControllerProtocol); components are created in pairs with equal '
        'labels; after every step return values, a full query sweep of both '
        'worlds and both lifecycle logs are compared label-wise, and every '
        'attached Controller must know its entity and world. (proto) '
        'Prototype subclasses over 1-5 component types with every subset of '
        'the three construction sources per type (all 8^n combinations for '
        'n<=2 [quick] / n<=3 [thorough], random beyond), custom prefixes, '
        'overrides in a sub-subclass, equal class names in two namespaces, '
        'iterated twice. (onupdate) OnUpdateProcessor with 0-4 listeners and '
        'dt tokens of several types. Non-trivial = a shorthand used on an '
        'entity with a pending deletion or after a replacement; a prototype '
        'where >=2 sources compete for a type; >=2 on_update listeners.'
        ' Round 13 added: an init_methods entry that raises.')
ANCHORS = [
    'desper/logic/__init__.py::add_component',
    'desper/logic/__init__.py::remove_component',
    'desper/logic/__init__.py::has_component',
    'desper/logic/__init__.py::get_component',
    'desper/logic/__init__.py::get_components',
    'desper/logic/__init__.py::delete',
    'desper/logic/__init__.py::Controller.on_add',
    'desper/logic/__init__.py::controller',
    'desper/logic/__init__.py::ComponentReference.__get__',
    'desper/logic/__init__.py::ComponentReference.__set__',
    'desper/logic/__init__.py::ComponentReference.__delete__',
    'desper/logic/__init__.py::ProcessorReference.__get__',
    'desper/logic/__init__.py::ProcessorReference.__set__',
    'desper/logic/__init__.py::ProcessorReference.__delete__',
    'desper/logic/__init__.py::Prototype.__iter__',
    'desper/logic/__init__.py::OnUpdateProcessor.process',
]
MIN_NONTRIVIAL = {'quick': 500, 'thorough': 8000}
MIN_STATS = {'shorthand_calls_checked': 5000, 'prototype_components_checked':
             1000, 'onupdate_deliveries_checked': 300}
EXHAUSTIVE = {'quick': 'prototype source subsets for <=2 listed types (8^n)',
              'thorough': 'prototype source subsets for <=3 listed types'}
ASSUMPTIONS = ['dispatching stays enabled in the twin histories (postponed '
               'on_add of a Controller is the subject of C02)']

FORMS = ['method', 'function', 'descriptor']
CTL_KINDS = ['attached', 'free', 'namedtuple']


def gen_twin(rng, tier):
    big = tier == 'thorough' and rng.random() < 0.5
    ncls = rng.randint(2, 5)
    classes = [{'base': rng.randrange(i) if i and rng.random() < 0.5 else None,
                'handler': rng.random() < 0.5} for i in range(ncls)]
    nproc = rng.randint(1, 3)
    ops = []
    for _ in range(rng.randint(3, 50 if big else 25)):
        k = rng.random()
        e = rng.randrange(4)
        form = rng.choice(FORMS)
        ctl = rng.choice(CTL_KINDS)
        if k < 0.15:
            ops.append(['create', e, rng.sample(range(ncls),
                                                rng.randint(0, 2))])
        elif k < 0.34:
            ops.append(['add', e, rng.randrange(ncls), form, ctl])
        elif k < 0.38:
            ops.append(['readd_same', e, rng.randrange(ncls), form, ctl])
        elif k < 0.5:
            ops.append(['remove', e, rng.randrange(ncls), form, ctl])
        elif k < 0.58:
            ops.append(['has', e, rng.randrange(ncls), form, ctl])
        elif k < 0.68:
            ops.append(['get', e, rng.randrange(ncls), form, ctl])
        elif k < 0.74:
            ops.append(['getall', e, form, ctl])
        elif k < 0.8:
            ops.append(['delete', e, form, ctl])
        elif k < 0.88:
            ops.append(['process'])
        elif k < 0.9:
            ops.append(['clear'])
        elif k < 0.92:
            ops.append(['pget', e, rng.randrange(nproc), ctl])
        elif k < 0.98:
            # value: an instance of the declared type or of a subclass with
            # another class-level priority, optionally with its own priority
            ops.append(['pset', e, rng.randrange(nproc), ctl,
                        rng.random() < 0.3,
                        rng.choice([None, None, -2, 0, 3])])
        else:
            ops.append(['pdel', e, rng.randrange(nproc), ctl])
    return {'mode': 'twin', 'classes': classes, 'nproc': nproc, 'ops': ops}


def gen_proto(rng):
    n = rng.randint(1, 5)
    types = []
    for i in range(n):
        types.append({'name': rng.choice(['Pos', 'Sprite', 'Body', 'Pos',
                                          'Pos', 'Sprite', 'Body', 'Pos',
                                          # init_prefix + name then names
                                          # an attribute that is no method
                                          'methods', 'prefix']),
                      'sources': [s for s in ('dict', 'method', 'sub_method',
                                              'sub_dict')
                                  if rng.random() < 0.35]})
    return {'mode': 'proto', 'types': types,
            'prefix': rng.choice(['init_', 'init_', 'make', '_b_', '']),
            'sub_prefix': rng.choice([None, None, 'mk_']),
            'falsy_factories': rng.random() < 0.25}


def gen_cases(tier, seed):
    maxn = 2 if tier == 'quick' else 3
    subsets = [list(c) for r in range(4)
               for c in itertools.combinations(('dict', 'method',
                                                'sub_method'), r)]
    for n in range(1, maxn + 1):
        for combo in itertools.product(subsets, repeat=n):
            yield {'mode': 'proto',
                   'types': [{'name': f'T{i}', 'sources': list(s)}
                             for i, s in enumerate(combo)],
                   'prefix': 'init_', 'sub_prefix': None}
    n = 4000 if tier == 'quick' else 16 * 5000
    for i in range(n):
        rng = random.Random(f'C19/{seed}/{tier}/{i}')
        k = i % 10
        if k < 7:
            yield gen_twin(rng, tier)
        elif k < 9:
            yield gen_proto(rng)
        else:
            yield {'mode': 'onupdate', 'listeners': rng.randint(0, 4),
                   'dts': [rng.choice([0, 1, 0.5, 'frac', 'obj', -1, 'none'])
                           for _ in range(rng.randint(1, 5))],
                   'remove_at': rng.choice([None, 1, 2]),
                   'raise_at': rng.choice([None, None, 0, 1]),
                   # value-like listeners (all equal, equally hashed)
                   'equal_listeners': rng.random() < 0.3,
                   'param_style': rng.choice(['dt', 'delta', 'star',
                                              'posonly'])}


def run_case(case):
    return {'twin': run_twin, 'proto': run_proto,
            'onupdate': run_onupdate}[case['mode']](case)


# --------------------------------------------------------------------------

def run_twin(case):
    desper = import_desper()
    res = Res()
    logs = {'A': [], 'B': []}

    class Root:
        pass

    classes = []
    for i, spec in enumerate(case['classes']):
        base = Root if spec['base'] is None else classes[spec['base']]
        ns = {}
        if spec['handler']:
            def on_add(self, entity, world):
                logs[self.side].append(('add', self.label, repr(entity)))

            def on_remove(self, entity, world):
                logs[self.side].append(('remove', self.label, repr(entity)))
            ns = {'on_add': on_add, 'on_remove': on_remove}
        cls = type(f'K{i}', (base,), ns)
        if spec['handler']:
            cls = desper.event_handler('on_add', 'on_remove')(cls)
        classes.append(cls)
    procs = [type(f'P{i}', (desper.Processor,),
                  {'process': lambda self, dt=1: None,
                   'priority': [0, 1, -1][i % 3]})
             for i in range(case['nproc'])]
    subprocs = [type(f'SubP{i}', (p,), {'priority': [2, -1, 0][i % 3]})
                for i, p in enumerate(procs)]

    ns = {f'ref{i}': desper.ComponentReference(c)
          for i, c in enumerate(classes)}
    ns.update({f'pref{i}': desper.ProcessorReference(p)
               for i, p in enumerate(procs)})
    Ctl = type('Ctl', (desper.Controller,), ns)
    FreeCtl = type('FreeCtl', (), dict(ns, world=None, entity=None))
    NT = collections.namedtuple('NT', ['world', 'entity'])

    worlds = {'A': desper.World(), 'B': desper.World()}
    ids = [0, 1, '', ('t', 1)]
    label = [0]
    state = {'pending': set(), 'replaced': False}
    nontrivial = False

    def pair(k):
        label[0] += 1
        out = {}
        for side in 'AB':
            c = classes[k]()
            c.label, c.side = label[0], side
            out[side] = c
        return out

    def lab(x):
        if x is None or isinstance(x, bool):
            return x
        if isinstance(x, (tuple, list)):
            return sorted(map(repr, (lab(i) for i in x)))
        return getattr(x, 'label', type(x).__name__)

    def controller_for(e, kind, need_refs):
        """Controller through which world B is driven for entity ``e``."""
        w = worlds['B']
        attached = w.get_component(e, Ctl)
        if kind == 'attached' and attached is not None:
            return attached, 'attached'
        if kind == 'namedtuple' and not need_refs:
            return NT(w, e), 'namedtuple'
        if need_refs:
            c = FreeCtl()
            c.world, c.entity = w, e
            return c, 'free-with-refs'
        return desper.controller(e, w), 'free'

    def call_b(op, e, form, ctlkind, *args):
        need_refs = form == 'descriptor'
        ctl, used = controller_for(e, ctlkind, need_refs)
        res.tags['controller_kind'].add(used)
        res.tags['form'].add(f'{op}/{form}')
        fn = getattr(desper, op if op != 'delete' else 'delete')
        if form == 'function' or used == 'namedtuple':
            return fn(ctl, *args)
        if form == 'method' and hasattr(ctl, op):
            return getattr(ctl, op)(*args)
        if form == 'method':
            return fn(ctl, *args)
        # descriptor forms
        if op == 'add_component':
            k = classes.index(type(args[0]))
            setattr(ctl, f'ref{k}', args[0])
            return None
        if op == 'remove_component':
            delattr(ctl, f'ref{classes.index(args[0])}')
            return 'no-result'
        if op == 'get_component':
            return getattr(ctl, f'ref{classes.index(args[0])}')
        return fn(ctl, *args)

    def fail(at, kind, what, expected, observed, **kw):
        res.div(at, kind, what, expected=expected, observed=observed, **kw)

    for at, op in enumerate(case['ops']):
        name = op[0]
        ra = rb = None
        try:
            if name == 'create':
                e = ids[op[1]]
                comps = [pair(k) for k in op[2]]
                for side in 'AB':
                    ctl = Ctl()
                    ctl.label, ctl.side = f'ctl{at}', side
                    worlds[side].create_entity(
                        *[c[side] for c in comps], ctl, entity_id=e)
                state['pending'].discard(e) if False else None
            elif name == 'add':
                e = ids[op[1]]
                c = pair(op[2])
                if worlds['A'].has_component(e, classes[op[2]]) and type(
                        worlds['A'].get_component(e, classes[op[2]])) \
                        is classes[op[2]]:
                    state['replaced'] = True
                    nontrivial = True
                if e in state['pending']:
                    nontrivial = True
                ra = worlds['A'].add_component(e, c['A'])
                rb = call_b('add_component', e, op[3], op[4], c['B'])
            elif name == 'readd_same':
                # add_component with the component the entity already owns
                e = ids[op[1]]
                ca = worlds['A'].get_component(e, classes[op[2]])
                cb = worlds['B'].get_component(e, classes[op[2]])
                if ca is None or cb is None:
                    res.stats['ops_skipped'] += 1
                    continue
                res.tags['form'].add('readd_same/' + op[3])
                ra = worlds['A'].add_component(e, ca)
                rb = call_b('add_component', e, op[3], op[4], cb)
                nontrivial = True
            elif name == 'remove':
                e = ids[op[1]]
                if e in state['pending']:
                    nontrivial = True
                ra = worlds['A'].remove_component(e, classes[op[2]])
                rb = call_b('remove_component', e, op[3], op[4],
                            classes[op[2]])
                if rb == 'no-result':
                    ra = rb = None
            elif name == 'has':
                e = ids[op[1]]
                ra = worlds['A'].has_component(e, classes[op[2]])
                rb = call_b('has_component', e, op[3], op[4], classes[op[2]])
            elif name == 'get':
                e = ids[op[1]]
                ra = worlds['A'].get_component(e, classes[op[2]])
                rb = call_b('get_component', e, op[3], op[4], classes[op[2]])
            elif name == 'getall':
                e = ids[op[1]]
                ra = worlds['A'].get_components(e)
                rb = call_b('get_components', e, op[2], op[3])
            elif name == 'delete':
                e = ids[op[1]]
                if not worlds['A'].get_components(e):
                    # precondition of delete_entity: the entity exists
                    res.stats['ops_skipped'] += 1
                    continue
                ra = worlds['A'].delete_entity(e)
                rb = call_b('delete', e, op[2], op[3])
                state['pending'].add(e)
            elif name == 'process':
                for side in 'AB':
                    worlds[side].process(1)
                state['pending'].clear()
            elif name == 'clear':
                for side in 'AB':
                    worlds[side].clear()
                state['pending'].clear()
            elif name in ('pget', 'pset', 'pdel'):
                e = ids[op[1]]
                pt = procs[op[2]]
                ctl, used = controller_for(e, op[3], True)
                res.tags['form'].add(name)
                if name == 'pget':
                    ra = worlds['A'].get_processor(pt)
                    rb = getattr(ctl, f'pref{op[2]}')
                    ra, rb = (ra is None), (rb is None)
                elif name == 'pset':
                    cls = subprocs[op[2]] if len(op) > 4 and op[4] else pt
                    pa, pb = cls(), cls()
                    if len(op) > 5 and op[5] is not None:
                        pa.priority = pb.priority = op[5]
                    worlds['A'].add_processor(pa)
                    setattr(ctl, f'pref{op[2]}', pb)
                else:
                    worlds['A'].remove_processor(pt)
                    delattr(ctl, f'pref{op[2]}')
            res.stats['shorthand_calls_checked'] += 1
        except Exception as ex:
            fail(at, 'operation-raised', f'{name} raised '
                 f'{type(ex).__name__}: {ex}', 'no exception', repr(ex), op=op)
            break
        if lab(ra) != lab(rb):
            fail(at, 'result-differs', f'{name}: the shorthand returned '
                 'something else than the World call', lab(ra), lab(rb), op=op)
            break
        # ---- both worlds tell the same story
        wa, wb = worlds['A'], worlds['B']
        views = []
        for w in (wa, wb):
            view = {'entities': sorted(map(repr, w.entities)),
                    'procs': [(type(p).__name__, p.priority)
                              for p in w.processors]}
            for e in ids:
                view[repr(e)] = sorted(repr(lab(c))
                                       for c in w.get_components(e))
                view['exists' + repr(e)] = w.entity_exists(e)
            for i, t in enumerate(classes + [Ctl]):
                view[f'get{i}'] = sorted(
                    (repr(e), repr(lab(c))) for e, c in w.get(t))
            views.append(view)
        res.stats['world_comparisons'] += 1
        if views[0] != views[1]:
            diff = {k: [views[0][k], views[1][k]] for k in views[0]
                    if views[0][k] != views[1][k]}
            fail(at, 'worlds-differ', f'after {name} the world driven through '
                 'shorthands differs from the one driven through World calls',
                 {k: v[0] for k, v in diff.items()},
                 {k: v[1] for k, v in diff.items()}, op=op)
            break
        if logs['A'] != logs['B']:
            fail(at, 'lifecycle-differs', 'lifecycle callbacks differ between '
                 'the two worlds', logs['A'][-4:], logs['B'][-4:], op=op)
            break
        # ---- attached controllers know their owner
        for side, w in worlds.items():
            for e, ctl in w.get(Ctl):
                res.stats['controller_checks'] += 1
                if ctl.entity != e or ctl.world is not w:
                    fail(at, 'controller-owner', 'an attached Controller does '
                         'not know its entity/world', [repr(e), side],
                         [repr(ctl.entity), repr(ctl.world)])
                    break
            if res.divs:
                break
        if res.divs:
            break
    res.nontrivial = nontrivial
    res.sample = {'ops': res.stats['shorthand_calls_checked'],
                  'forms': sorted(res.tags['form'])[:8]}
    return res


# --------------------------------------------------------------------------

class FalsyFactory:
    def __init__(self, fn):
        self.fn = fn

    def __call__(self, *args):
        return self.fn(*args)

    def __len__(self):
        return 0


def run_proto(case):
    desper = import_desper()
    res = Res()
    prefix = case['prefix']
    sub_prefix = case['sub_prefix']
    comp_types = []
    for i, spec in enumerate(case['types']):
        # equal class names in different "namespaces" are distinct classes
        cls = type(spec['name'], (), {'index': i})
        comp_types.append(cls)

    def stamp(source, i):
        def build(*args):
            comp_type = args[-1]
            obj = comp_type()
            obj.source = source
            obj.made_for = i
            return obj
        return build

    base_ns = {'component_types': tuple(comp_types), 'init_prefix': prefix,
               'init_methods': {}}
    sub_ns = {}
    expected = []
    names_seen = {}
    for i, spec in enumerate(case['types']):
        src = spec['sources']
        cls = comp_types[i]
        name = spec['name']
        reserved = ('init_methods', 'init_prefix', 'component_types')
        if f'{prefix}{name}' in reserved or (
                sub_prefix is not None and f'{sub_prefix}{name}' in reserved):
            # defining a method under that name would clobber the
            # prototype's own configuration attribute
            src = [x for x in src if x not in ('method', 'sub_method')]
        if 'dict' in src:
            base_ns['init_methods'][cls] = stamp('dict', i)
            if case.get('falsy_factories'):
                # a callable entry that is a falsy object (e.g. a pool that
                # is empty at the moment)
                base_ns['init_methods'][cls] = FalsyFactory(stamp('dict', i))
                res.tags['falsy_factories'].add(True)
        if 'method' in src:
            # for duplicate names the last definition wins, as in Python
            base_ns[f'{prefix}{name}'] = (
                lambda self, t, _b=stamp('method', i): _b(t))
            names_seen[name] = ('method', i)
        if 'sub_method' in src:
            p = sub_prefix if sub_prefix is not None else prefix
            sub_ns[f'{p}{name}'] = (
                lambda self, t, _b=stamp('sub_method', i): _b(t))
        if 'sub_dict' in src:
            sub_ns.setdefault('init_methods', dict(base_ns['init_methods']))
    Base = type('Proto', (desper.Prototype,), base_ns)
    use_sub = bool(sub_ns) or sub_prefix is not None
    if use_sub:
        if 'init_methods' in sub_ns:
            for i, spec in enumerate(case['types']):
                if 'sub_dict' in spec['sources']:
                    sub_ns['init_methods'][comp_types[i]] = stamp('sub_dict',
                                                                  i)
        if sub_prefix is not None:
            sub_ns['init_prefix'] = sub_prefix
        Cls = type('SubProto', (Base,), sub_ns)
    else:
        Cls = Base

    # ---- oracle: the stated priority, resolved with plain getattr
    eff_prefix = sub_prefix if (use_sub and sub_prefix is not None) else prefix
    eff_dict = (sub_ns.get('init_methods') if use_sub and 'init_methods'
                in sub_ns else base_ns['init_methods'])
    competing = False
    for i, cls in enumerate(comp_types):
        name = case['types'][i]['name']
        method = getattr(Cls, f'{eff_prefix}{name}', None)
        if not callable(method):
            # e.g. the dictionary init_methods for a type named "methods":
            # an attribute, not "the method named init_prefix + type name"
            if method is not None:
                res.tags['prefix_name_hits_non_method'].add(
                    f'{eff_prefix}{name}')
            method = None
        sources = int(cls in eff_dict) + int(method is not None)
        if sources >= 2:
            competing = True
        if cls in eff_dict:
            expected.append(('dict-entry', cls))
        elif method is not None:
            expected.append(('method', cls))
        else:
            expected.append(('default', cls))

    proto = Cls()
    rounds = []
    try:
        for _ in range(2):
            rounds.append(list(proto))
    except Exception as ex:
        res.div(0, 'iteration-raised', f'{type(ex).__name__}: {ex}',
                'components', repr(ex))
        return res
    for r, comps in enumerate(rounds):
        if [type(c) for c in comps] != comp_types:
            res.div(r, 'prototype-types', 'types / order of the components '
                    'yielded', [t.__name__ for t in comp_types],
                    [type(c).__name__ for c in comps])
            return res
        for i, c in enumerate(comps):
            res.stats['prototype_components_checked'] += 1
            how, cls = expected[i]
            src = getattr(c, 'source', 'default')
            made_for = getattr(c, 'made_for', None)
            if how == 'dict-entry':
                want = ('sub_dict' if 'sub_dict' in case['types'][i]['sources']
                        else 'dict', i)
            elif how == 'method':
                # which function the name resolves to is Python's business
                # (duplicate class names share one method): ask getattr
                probe = getattr(proto, f'{eff_prefix}{cls.__name__}')(cls)
                want = (probe.source, probe.made_for)
            else:
                want = ('default', None)
            if (src, made_for) != want:
                res.div(r, 'prototype-source', f'component {i} '
                        f'({cls.__name__}) was not built by the source the '
                        'stated priority selects (init_methods entry, else '
                        'init_prefix+name method, else default constructor)',
                        [how, list(want)], [src, made_for],
                        sources=case['types'][i]['sources'],
                        prefix=eff_prefix)
                return res
    # ---- a second prototype class over the SAME component types, with its
    # own prefix and sources, iterated afterwards: nothing may leak over
    other_ns = {'component_types': tuple(comp_types), 'init_prefix': 'other_',
                'init_methods': {}}
    for i, cls in enumerate(comp_types):
        if i % 2 == 0:
            other_ns[f'other_{cls.__name__}'] = (
                lambda self, t, _b=stamp('other', i): _b(t))
    Other = type('OtherProto', (desper.Prototype,), other_ns)
    try:
        built = list(Other())
    except Exception as ex:
        res.div(2, 'iteration-raised', f'second prototype: '
                f'{type(ex).__name__}: {ex}', 'components', repr(ex))
        return res
    for i, c in enumerate(built):
        res.stats['prototype_components_checked'] += 1
        name = comp_types[i].__name__
        method = other_ns.get(f'other_{name}')
        if method is not None:
            probe = method(None, comp_types[i])
            want = (probe.source, probe.made_for)
        else:
            want = ('default', None)
        got = (getattr(c, 'source', 'default'), getattr(c, 'made_for', None))
        if type(c) is not comp_types[i] or got != want:
            res.div(2, 'prototype-source', 'a second prototype over the same '
                    f'types (prefix other_) built component {i} from the '
                    'wrong source', list(want), list(got))
            return res
    if any(a is b for a, b in zip(*rounds)):
        res.div(1, 'prototype-not-fresh', 'iterating a prototype twice '
                'yielded the same instance', 'new components', 'reused')
    # ---- an init_methods entry that fails: the component is "built by the
    # type's entry if there is one" - the entry's own exception comes out of
    # the iteration, no other source is tried behind its back
    if comp_types and not res.divs:
        victim = comp_types[len(case['types']) % len(comp_types)]
        exc_type = [KeyError, LookupError, IndexError, AttributeError,
                    TypeError][len(case['types']) % 5]
        fault = exc_type('the entry failed')
        tried = []

        def failing(*args):
            raise fault

        def fallback(self, comp_type):
            tried.append(comp_type)
            return comp_type()
        ns = {'component_types': (victim,), 'init_prefix': 'mk_',
              'init_methods': {victim: failing},
              f'mk_{victim.__name__}': fallback}
        Failing = type('Failing', (desper.Prototype,), ns)
        res.stats['failing_entries_checked'] += 1
        try:
            got = list(Failing())
        except Exception as ex:
            if ex is not fault:
                res.div(2, 'prototype-entry-error-replaced', 'an '
                        'init_methods entry raised; another exception came '
                        'out of the iteration', repr(fault), repr(ex))
        else:
            res.div(2, 'prototype-entry-error-swallowed', 'an init_methods '
                    f'entry raised {exc_type.__name__}; the iteration went '
                    'on and built the component from another source',
                    repr(fault), [type(c).__name__ for c in got],
                    fallback_called=bool(tried))
    res.nontrivial = competing
    res.tags['proto_sources'].add(
        tuple(sorted({s for t in case['types'] for s in t['sources']})))
    res.sample = {'expected': [e[0] for e in expected]}
    return res


# --------------------------------------------------------------------------

def run_onupdate(case):
    desper = import_desper()
    res = Res()
    log = []

    fault = {'armed': False, 'obj': None}

    def received(self, dt):
        log.append((self.uid, dt))
        if fault['armed']:
            fault['armed'] = False
            fault['obj'] = HarnessError('listener failed')
            raise fault['obj']

    # the callback's parameter has whatever name its author gave it
    style = case.get('param_style', 'dt')
    if style == 'delta':
        def on_update(self, delta):
            received(self, delta)
    elif style == 'star':
        def on_update(self, *args):
            received(self, *args)
    elif style == 'posonly':
        def on_update(self, elapsed, /):
            received(self, elapsed)
    else:
        def on_update(self, dt):
            received(self, dt)
    res.tags['on_update_parameter'].add(style)
    L = desper.event_handler('on_update')(
        type('L', (), {'on_update': on_update}))

    if case.get('equal_listeners'):
        L.__eq__ = lambda self, other: isinstance(other, L)
        L.__hash__ = lambda self: 3
        res.tags['equal_listeners'].add(True)
    w = desper.World()
    w.add_processor(desper.OnUpdateProcessor())
    ents = []
    for uid in range(case['listeners']):
        obj = L()
        obj.uid = uid
        ents.append((w.create_entity(obj), obj))
    alive = list(range(case['listeners']))
    sentinel = object()
    for at, spec in enumerate(case['dts']):
        dt = {'frac': Fraction(1, 3), 'obj': sentinel, 'none': None}.get(
            spec, spec) if isinstance(spec, str) else spec
        if case['remove_at'] == at and alive:
            w.remove_component(ents[alive[0]][0], L)
            alive.pop(0)
        del log[:]
        if case.get('raise_at') == at and alive:
            # one listener fails during this frame: the exception reaches
            # the caller, and later frames are relayed as usual
            fault['armed'] = True
            try:
                w.process(dt)
                got_exc = None
            except HarnessError as ex:
                got_exc = ex
            fault['armed'] = False
            res.stats['onupdate_faults'] += 1
            if got_exc is not fault['obj'] or got_exc is None:
                res.div(at, 'fault-not-propagated', 'an on_update listener '
                        'raised but process() did not propagate it',
                        repr(fault['obj']), repr(got_exc))
                break
            continue
        try:
            w.process(dt)
        except Exception as ex:
            res.div(at, 'process-raised', f'{type(ex).__name__}: {ex}',
                    'no exception', repr(ex))
            break
        res.stats['onupdate_deliveries_checked'] += len(log)
        got = sorted(u for u, _ in log)
        if got != alive or any(d is not dt for _, d in log):
            res.div(at, 'on-update-relay', 'OnUpdateProcessor must relay the '
                    "frame's dt exactly once, unaltered, to every on_update "
                    'listener', [alive, repr(dt)],
                    [got, [repr(d) for _, d in log]])
            break
    res.nontrivial = case['listeners'] >= 2
    res.sample = {'listeners': case['listeners']}
    return res


def shrink(case):
    if case['mode'] == 'twin':
        ops = case['ops']
        for n in range(len(ops) - 1, -1, -1):
            yield dict(case, ops=ops[:n] + ops[n + 1:])
    elif case['mode'] == 'proto':
        types = case['types']
        for i in range(len(types)):
            if len(types) > 1:
                yield dict(case, types=types[:i] + types[i + 1:])


def classify(case, div):
    return None
