"""C11 - Resource paths, shadowing and back-links stay consistent."""
import random

from vf.core import Res
from vf import treelib as tl

ID = 'C11'
LEVEL = 'exploration'
RULE = ('random histories of __setitem__ with plain and composite keys of '
        'depth 1-5 (thorough: 6) over an alphabet of 3-4 path components (so '
        'paths collide and overwrite constantly; empty components at 5%), '
        'values being fresh handles, fresh empty maps, pre-populated maps and '
        'layered situations produced the way DirectoryResourcePopulator '
        'produces them (new first layer in handles.maps, then an assignment); '
        'clear() on the root and on sub-maps. After EVERY operation: for '
        "every path of the nested-dict reference model m[p], chained [] and "
        'get(p)() must denote the same object, every reachable node must '
        'record its container and name, no name may be stored as handle and '
        'map at once (any ChainMap layer), no unknown name may be visible, '
        'and for sampled absent / too-long paths get returns its default '
        'exactly when [] raises KeyError; after clear() former '
        'children - visible ones and handles kept beneath newer ones in '
        'deeper layers - are detached. Non-trivial = a composite key of depth>=3 '
        'creating an implicit map, an overwrite across kinds, or a clear of a '
        'layered map.'
        ' Rounds 11-13 added: displaced maps assigned again; assignments the'
        ' map refuses; the pinned suite under the back-link invariants.')
ANCHORS = [
    'desper/model/tree.py::ResourceMap.get',
    'desper/model/tree.py::ResourceMap.__getitem__',
    'desper/model/tree.py::ResourceMap.__setitem__',
    'desper/model/tree.py::ResourceMap.clear',
]
MIN_NONTRIVIAL = {'quick': 400, 'thorough': 8000}
MIN_STATS = {'tree_comparisons': 200000}
ASSUMPTIONS = [
    "don't-care: parent/key of displaced (no longer reachable) nodes; "
    'identity of implicitly created maps across overwrites',
    'each value object is inserted at most once',
]


def gen_key(rng, alphabet, maxdepth):
    depth = rng.choices(range(1, maxdepth + 1),
                        [30, 30, 20, 10, 6, 4][:maxdepth])[0]
    return '/'.join('' if rng.random() < 0.05 else rng.choice(alphabet)
                    for _ in range(depth))


def gen_value(rng, alphabet):
    k = rng.random()
    if k < 0.6:
        return 'h'
    if k < 0.8:
        return 'm'
    if k < 0.86:
        return ['reuse', rng.randrange(8)]
    return ['pm', [[gen_key(rng, alphabet, 2), rng.choice('hhm')]
                   for _ in range(rng.randint(1, 3))]]


def gen_one(rng, tier, scale=False):
    deep = False
    big = tier == 'thorough' and rng.random() < 0.5
    alphabet = ['a', 'b', 'c', 'd'][:rng.randint(3, 4)]
    maxdepth = 6 if big else 5
    if scale:
        alphabet = [f'n{i}' for i in range(12)] + ['a.b', 'x y', 'ü', '0']
        if rng.random() < 0.7:
            # long chains: keys with 8-14 components over a tiny alphabet
            alphabet = ['p', 'q']
            deep = True
    ops = []
    for _ in range(rng.randint(1, 40 if big else 20) if not scale else 120):
        k = rng.random()
        if k < 0.72:
            key = gen_key(rng, alphabet, maxdepth)
            if deep and rng.random() < 0.6:
                key = '/'.join(rng.choice(alphabet)
                               for _ in range(rng.randint(8, 14)))
            ops.append(['set', key, gen_value(rng, alphabet)])
        elif k < 0.84:
            key = gen_key(rng, alphabet, 3)
            ops.append(['layer_set', key])
            if rng.random() < 0.3:
                # ... and the map holding the shadowed handle is cleared
                ops.append(['clear', key.rpartition('/')[0] or None])
        elif k < 0.86:
            ops.append(['reassign', gen_key(rng, alphabet, 3)])
        elif k < 0.88:
            # an assignment the map refuses (the value is neither a handle
            # nor a map): nothing that was reachable may change
            ops.append(['bad_set', gen_key(rng, alphabet, 4),
                        rng.choice([42, 'text', None])])
        elif k < 0.93:
            ops.append(['set_via', gen_key(rng, alphabet, 2),
                        gen_key(rng, alphabet, 3), gen_value(rng, alphabet)])
        else:
            ops.append(['clear', None if rng.random() < 0.3
                        else gen_key(rng, alphabet, 2)])
    return {'ops': ops}


def gen_cases(tier, seed):
    # the repository's own tests as a workload (vf/suite_monitor.py)
    yield {'scenario': 'suite'}
    for i in range(6 if tier == 'quick' else 64):
        yield gen_one(random.Random(f'C11/scale/{seed}/{tier}/{i}'), tier,
                      scale=True)
    n = 2500 if tier == 'quick' else 16 * 6000
    for i in range(n):
        case = gen_one(random.Random(f'C11/{seed}/{tier}/{i}'), tier)
        case['falsy_handles'] = i % 5 == 0
        yield case


def run_case(case):
    if case.get('scenario') == 'suite':
        from vf import suite_monitor
        return suite_monitor.run_suite(ID)
    res = Res()
    drv = tl.TreeDriver(res, falsy=case.get('falsy_handles', False))
    for at, op in enumerate(case['ops']):
        name = op[0]
        try:
            if name == 'set':
                drv.set(op[1], op[2])
            elif name == 'layer_set':
                if not drv.layer_set(op[1]):
                    res.stats['ops_skipped'] += 1
                    continue
            elif name == 'reassign':
                if not drv.reassign(op[1]):
                    res.stats['ops_skipped'] += 1
                    continue
            elif name == 'bad_set':
                try:
                    drv.root[op[1]] = op[2]
                except (AssertionError, TypeError, ValueError,
                        AttributeError):
                    res.stats['refused_assignments'] += 1
                    drv.flags.add('refused-assignment')
                else:
                    res.div(at, 'bad-value-accepted', f'm[{op[1]!r}] = '
                            f'{op[2]!r} was accepted', 'refused', 'accepted')
            elif name == 'set_via':
                if not drv.set_via(op[1], op[2], op[3]):
                    res.stats['ops_skipped'] += 1
                    continue
            elif name == 'clear':
                got = drv.clear(op[1])
                if got is None:
                    res.stats['ops_skipped'] += 1
                    continue
                real, before = got
                for child_name, obj in before.items():
                    res.stats['tree_comparisons'] += 1
                    if obj is None:
                        continue
                    if obj.parent is not None or obj.key is not None:
                        res.div(at, 'clear-keeps-link', f'former child '
                                f'{child_name!r} of a cleared map still '
                                'records a parent/name', [None, None],
                                [repr(obj.parent), obj.key])
                        break
        except Exception as ex:
            res.div(at, 'operation-raised', f'{name} raised '
                    f'{type(ex).__name__}: {ex}', 'no exception', repr(ex),
                    op=op)
        res.stats['ops'] += 1
        if res.divs or not tl.sweep(drv, at):
            break
    res.nontrivial = bool(drv.flags & {'handle-to-map', 'map-to-handle',
                                       'clear-layered'}) or (
        'deep-key' in drv.flags and 'implicit-map' in drv.flags)
    for f in drv.flags:
        res.tags['flags'].add(f)
    res.sample = {'flags': sorted(drv.flags), 'ops': res.stats['ops']}
    return res


def classify(case, div):
    return None
