"""C03 - An enabled dispatcher delivers each event once to each listener."""
import collections
import copy
import random

from vf import import_desper
from vf.core import Res, HarnessError

ID = 'C03'
LEVEL = 'exploration'
RULE = ('handler class forests built with event_handler (positional names, '
        'keyword remappings, both, empty decorations) over single-inheritance '
        'trees of depth<=4 with undecorated intermediate classes (20% of '
        'the decorated classes get a second handler base from another tree), overriding '
        'mappings and overriding methods; histories of add_handler (incl. '
        'twice), remove_handler (incl. never-added), dispatch(name, *args, '
        '**kwargs) with unique argument tokens, unknown event names, and '
        're-entrant scripts (a callback may itself dispatch, add_handler or '
        'remove_handler; each handler owns a finite script). Every generated '
        'method logs (defining class, method, receiver, args, kwargs, '
        'dispatch-call id). Oracle per (outermost or nested) dispatch call: '
        'exactly the handlers registered when the call was made, once each, '
        'through the function the harness-derived mapping names, with '
        'identical arguments, and nothing else; __events__ of every class '
        'snapshotted after its decoration and compared at the end. '
        'Non-trivial = >=2 handlers of >=2 classes on one event plus one of '
        '{re-registration, removal followed by dispatch, re-entrant call, '
        'kwargs}.'
        ' Rounds 9-13 added: class mappings modified in place or replaced'
        ' between registrations, handlers that evaluate false, one decorator'
        ' object used for two classes.'
        ' Round 14 added: classes decorated in two steps.')
ANCHORS = [
    'desper/events.py::EventDispatcher.add_handler',
    'desper/events.py::EventDispatcher.is_handler',
    'desper/events.py::EventDispatcher._remove_weak_handler',
    'desper/events.py::EventDispatcher.remove_handler',
    'desper/events.py::EventDispatcher.dispatch',
    'desper/events.py::event_handler',
]
MIN_NONTRIVIAL = {'quick': 300, 'thorough': 5000}
MIN_STATS = {'deliveries_checked': 5000, 'dispatch_calls_checked': 3000}
ASSUMPTIONS = [
    "don't-care: a handler whose registration changes DURING a dispatch is "
    'judged "at most once" for that dispatch call; delivery order is not '
    'judged; a second handler base is given only to decorated classes and '
    'comes from another tree (no common ancestor); an UNDECORATED class with '
    'two handler bases is generated rarely (known finding: it shows the first '
    "base's mapping only)",
]

EVENTS = ['e0', 'e1', 'e2', 'e3']


def gen_one(rng, tier, scale=False):
    big = tier == 'thorough'
    ncls = rng.randint(1, 6) if not scale else 25
    classes = []
    defined = []        # method names available per class (incl. inherited)
    roots = []
    for i in range(ncls):
        base = rng.randrange(i) if i and rng.random() < 0.65 else None
        avail = set() if base is None else set(defined[base])
        decorated = rng.random() < 0.75
        roots.append({i} if base is None else set(roots[base]))
        # a decorated class may have a second handler base from another
        # tree (no common ancestor): it inherits both mappings, the first
        # base taking precedence, extended and overridden by its own
        base2 = None
        # (an UNDECORATED class gets one in 3% of the cases only: plain
        # attribute lookup shows it the first base's mapping - known finding)
        if base is not None and not scale and rng.random() < (
                0.2 if decorated else 0.03):
            cands = [j for j in range(i) if not (roots[j] & roots[base])]
            if cands:
                base2 = rng.choice(cands)
                avail |= set(defined[base2])
                roots[i] |= roots[base2]
        names, maps, methods = [], {}, set()
        if decorated:
            style = rng.random()
            evs = rng.sample(EVENTS, rng.randint(0 if style < 0.1 else 1, 3))
            for ev in evs:
                if rng.random() < 0.5:
                    names.append(ev)
                    meth = ev
                else:
                    meth = f'm{rng.randrange(3)}'
                    maps[ev] = meth
                if meth not in avail or rng.random() < 0.5:
                    methods.add(meth)
        # override inherited methods without touching the mapping
        for meth in sorted(avail):
            if rng.random() < 0.2:
                methods.add(meth)
        avail |= methods
        defined.append(avail)
        # value-like handlers: distinct instances that compare (and hash)
        # equal, also across classes, or that define __eq__ without __hash__
        eq = None
        if base is None and rng.random() < 0.3:
            eq = rng.choice(['equal', 'equal', 'cross', 'unhashable',
                             # handlers that evaluate false (an empty
                             # container, a zero counter)
                             'falsy', 'empty'])
        # the very decorator OBJECT of an earlier decorated class is used
        # again for this one (same own events, other bases)
        same_as = None
        if decorated and not scale and rng.random() < 0.15:
            earlier = [j for j, c in enumerate(classes) if c['decorated']
                       and set(c['names']) | set(c['maps'].values())
                       <= avail | methods | set(c['methods'])]
            if earlier:
                same_as = rng.choice(earlier)
                names = list(classes[same_as]['names'])
                maps = dict(classes[same_as]['maps'])
                methods |= set(names) | set(maps.values())
                avail |= methods
                defined[-1] = avail
        classes.append({'base': base, 'decorated': decorated, 'names': names,
                        'maps': maps, 'methods': sorted(methods), 'eq': eq,
                        'base2': base2, 'same_as': same_as,
                        # decorated in two steps (the class already has a
                        # mapping of its own when the second one runs)
                        'stacked': decorated and rng.random() < 0.15})
    nh = rng.randint(1, 8 if big else 5) if not scale else 90
    handlers = [rng.randrange(ncls) for _ in range(nh)]
    # a handler may carry its own mapping (instance attribute __events__)
    # over the methods its class offers
    inst_maps = []
    for ci in handlers:
        m = None
        if not scale and defined[ci] and rng.random() < 0.12:
            m = {ev: rng.choice(sorted(defined[ci]))
                 for ev in rng.sample(EVENTS, rng.randint(1, 3))}
        inst_maps.append(m)
    scripts = []
    for _ in range(nh):
        script = []
        if rng.random() < 0.35:
            for _ in range(rng.randint(1, 3)):
                k = rng.random()
                if k < 0.4:
                    script.append(['dispatch', rng.choice(EVENTS)])
                elif k < 0.7:
                    script.append(['add', rng.randrange(nh)])
                else:
                    script.append(['remove', rng.randrange(nh)])
        scripts.append(script)
    ops = []
    for _ in range(rng.randint(1, 40 if big else 25) if not scale else 400):
        k = rng.random()
        if k < 0.35:
            ops.append(['add', rng.randrange(nh)])
        elif k < 0.5:
            ops.append(['remove', rng.randrange(nh)])
        elif k < 0.95:
            ev = rng.choice(EVENTS) if rng.random() < 0.93 else 'unknown'
            ops.append(['dispatch', ev, rng.randint(0, 3),
                        rng.sample(['k0', 'k1', 'k2', 'event_name'],
                                   rng.randint(0, 2))
                        if rng.random() < 0.4 else []])
        elif k < 0.97 or scale:
            ops.append(['is', rng.randrange(nh)])
        else:
            # events deferred while disabled and released by enabling; one
            # callback of the release may raise (the program catches it and
            # carries on with dispatching enabled)
            ops.append(['burst', [rng.choice(EVENTS)
                                  for _ in range(rng.randint(1, 4))],
                        rng.choice([None, 0, 1, 2])])
    # a handler with its own mapping changes it and registers again
    for hi, m in enumerate(inst_maps):
        if m and rng.random() < 0.6:
            ci = handlers[hi]
            new = {ev: rng.choice(sorted(defined[ci]))
                   for ev in rng.sample(EVENTS, rng.randint(1, 3))}
            ops.insert(rng.randrange(len(ops) + 1), ['remap', hi, new])
    # a handler *class* changes its mapping between two registrations: the
    # dict the decorator gave it is modified in place, or replaced; every
    # registered handler concerned registers again
    if not scale and rng.random() < 0.15:
        cands = [i for i, c in enumerate(classes)
                 if c['decorated'] and defined[i]]
        if cands:
            ci = rng.choice(cands)
            new = {ev: rng.choice(sorted(defined[ci]))
                   for ev in rng.sample(EVENTS, rng.randint(1, 3))}
            ops.insert(rng.randrange(len(ops) + 1),
                       ['remap_cls', ci, new, rng.random() < 0.6])
    return {'classes': classes, 'handlers': handlers, 'scripts': scripts,
            'ops': ops, 'inst_maps': inst_maps}


def gen_cases(tier, seed):
    for i in range(3 if tier == 'quick' else 48):
        yield gen_one(random.Random(f'C03/scale/{seed}/{tier}/{i}'), tier,
                      scale=True)
    n = 8000 if tier == "quick" else 16 * 8000
    for i in range(n):
        yield gen_one(random.Random(f'C03/{seed}/{tier}/{i}'), tier)


def _value_eq(self, other):
    return getattr(other, '_eqkey', None) == self._eqkey


def _value_hash(self):
    return hash(self._eqkey)


class Token:
    __slots__ = ('n',)

    def __init__(self, n):
        self.n = n

    def __repr__(self):
        return f'tok{self.n}'


def run_case(case):
    desper = import_desper()
    res = Res()
    log = []
    calls = []          # dispatch call records
    stack = []          # active dispatch calls (indices into calls)
    registered = set()  # model registry (handler indices)
    flags = set()
    tokn = [0]
    ever_removed = set()
    burst = {'countdown': None, 'fault': None}

    d = desper.EventDispatcher()

    # ---- classes from recipes; expected mapping computed by the harness
    classes, mapping, definer, snapshots = [], [], [], []
    decorators = {}

    def make_method(ci, meth):
        def method(self, *args, **kwargs):
            log.append({'call': stack[-1] if stack else None,
                        'fn': (ci, meth), 'recv': self.hidx, 'args': args,
                        'kwargs': kwargs})
            if burst['countdown'] is not None:
                if burst['countdown'] == 0:
                    burst['countdown'] = None
                    burst['fault'] = HarnessError('callback of a release')
                    for c in stack:
                        # dispatch calls the exception passes through
                        calls[c]['interrupted'] = True
                    raise burst['fault']
                burst['countdown'] -= 1
            script = scripts[self.hidx]
            if script:
                act(script.pop(0), inside=True)
        method.__name__ = meth
        return method

    for ci, spec in enumerate(case['classes']):
        base = object if spec['base'] is None else classes[spec['base']]
        ns = {meth: make_method(ci, meth) for meth in spec['methods']}
        eq = spec.get('eq')
        if eq == 'falsy':
            ns['__bool__'] = lambda self: False
            flags.add('eq-falsy')
        elif eq == 'empty':
            ns['__len__'] = lambda self: 0
            flags.add('eq-falsy')
        elif eq:
            ns['_eqkey'] = 'shared' if eq == 'cross' else f'k{ci}'
            ns['__eq__'] = _value_eq
            ns['__hash__'] = None if eq == 'unhashable' else _value_hash
            flags.add(f'eq-{eq}')
        bases = (base,)
        inherited = {} if spec['base'] is None else dict(mapping[spec['base']])
        if spec.get('base2') is not None:
            bases = (base, classes[spec['base2']])
            inherited = dict(mapping[spec['base2']])
            inherited.update(mapping[spec['base']])
            flags.add('two-handler-bases')
        cls = type(f'H{ci}', bases, ns)
        base_def = None
        if spec['decorated']:
            if spec.get('same_as') is not None \
                    and spec['same_as'] in decorators:
                deco = decorators[spec['same_as']]
                flags.add('decorator-object-used-again')
            else:
                deco = desper.event_handler(*spec['names'], **spec['maps'])
            decorators[ci] = deco
            if spec.get('stacked') and spec.get('same_as') is None \
                    and len(spec['names']) + len(spec['maps']) >= 2:
                first_names = spec['names'][:1]
                first_maps = dict(list(spec['maps'].items())[
                    :0 if first_names else 1])
                rest_names = spec['names'][len(first_names):]
                rest_maps = {k: v for k, v in spec['maps'].items()
                             if k not in first_maps}
                cls2 = desper.event_handler(*rest_names, **rest_maps)(
                    desper.event_handler(*first_names, **first_maps)(cls))
                flags.add('decorated-in-two-steps')
            else:
                cls2 = deco(cls)
            if cls2 is not cls:
                res.div(-1, 'decorator-identity', 'event_handler did not '
                        'return the decorated class', None, None)
            inherited.update({n: n for n in spec['names']})
            inherited.update(spec['maps'])
        classes.append(cls)
        mapping.append(inherited)
        definer.append(base_def)
        ev = getattr(cls, '__events__', None)
        snapshots.append((ev, None if ev is None else dict(ev)))
        # the attribute the dispatcher reads must be the expected mapping
        if dict(ev or {}) != inherited:
            res.div(-1, 'mapping-mismatch', f'H{ci}.__events__ differs from '
                    'bases-extended-and-overridden-by-own',
                    expected=inherited, observed=ev, cls=ci)
        # bases unaltered by decorating a subclass
        for bi in range(ci):
            obj, snap = snapshots[bi]
            now = getattr(classes[bi], '__events__', None)
            if (None if now is None else dict(now)) != snap:
                res.div(-1, 'base-mapping-altered', f'decorating H{ci} '
                        f'altered H{bi}.__events__', expected=snap,
                        observed=now)
    if res.divs:
        return res

    handlers = []
    hmaps = {}          # handlers carrying their own mapping
    for hi, ci in enumerate(case['handlers']):
        if not mapping[ci]:
            # not an EventHandler at all: add_handler asserts on it
            handlers.append(None)
            continue
        h = classes[ci]()
        h.hidx = hi
        own = (case.get('inst_maps') or [None] * (hi + 1))[hi]
        if own:
            h.__events__ = dict(own)
            hmaps[hi] = dict(own)
            flags.add('instance-mapping')
        handlers.append(h)
    scripts = [list(s) for s in case['scripts']]

    def expected_fn(hi, ev):
        ci = case['handlers'][hi]
        meth = hmaps.get(hi, mapping[ci]).get(ev)
        if meth is None:
            return None
        # the function Python's attribute lookup finds on the class
        for k in classes[ci].__mro__:
            if meth in vars(k):
                return (classes.index(k), meth)
        return None

    def act(op, inside=False):
        name = op[0]
        if name in ('add', 'remove', 'is'):
            h = handlers[op[1]]
            if h is None:
                return
        if name == 'add':
            if op[1] in registered:
                flags.add('re-registration')
            d.add_handler(h)
            registered.add(op[1])
            for c in stack:
                calls[c]['changed'].add(op[1])
        elif name == 'remove':
            d.remove_handler(h)
            if op[1] in registered:
                ever_removed.add(op[1])
            registered.discard(op[1])
            for c in stack:
                calls[c]['changed'].add(op[1])
        elif name == 'is':
            pass
        elif name == 'remap':
            h = handlers[op[1]]
            if h is None or inside or stack or op[1] not in hmaps:
                return
            h.__events__ = dict(op[2])
            hmaps[op[1]] = dict(op[2])
            if op[1] in registered:
                # registering again takes the new mapping over (and does
                # not duplicate anything)
                d.add_handler(h)
                flags.add('re-registration')
            flags.add('mapping-changed')
        elif name == 'remap_cls':
            if inside or stack:
                return
            ci = op[1]
            own = vars(classes[ci]).get('__events__')
            if not isinstance(own, dict):
                return
            if op[3]:
                own.clear()
                own.update(op[2])
                flags.add('class-mapping-modified-in-place')
            else:
                own = classes[ci].__events__ = dict(op[2])
                flags.add('class-mapping-replaced')
            # the class itself and the undecorated classes that see its
            # mapping through plain attribute lookup
            # (which mapping an undecorated class shows is Python's own
            # attribute inheritance, no code of the library is involved)
            concerned = {ci}
            for k, spec in enumerate(case['classes']):
                if (not spec['decorated'] and getattr(
                        classes[k], '__events__', None) is own):
                    concerned.add(k)
            for k in concerned:
                mapping[k] = dict(op[2])
                snapshots[k] = (own, dict(op[2]))
            for hi in sorted(registered):
                if case['handlers'][hi] in concerned and hi not in hmaps:
                    d.add_handler(handlers[hi])
                    flags.add('re-registration')
        elif name == 'burst':
            if inside or stack:
                return
            rec = {'ev': None, 'skip': True, 'at_call': set(),
                   'changed': set(), 'nested': False}
            calls.append(rec)
            d.dispatch_enabled = False
            for ev in op[1]:
                tokn[0] += 1
                d.dispatch(ev, Token(tokn[0]))
            stack.append(len(calls) - 1)
            burst['countdown'] = op[2]
            burst['fault'] = None
            try:
                d.dispatch_enabled = True
            except HarnessError as ex:
                if ex is not burst['fault']:
                    raise
                flags.add('release-interrupted')
            finally:
                burst['countdown'] = None
                stack.pop()
            flags.add('deferred-burst')
        elif name == 'dispatch':
            ev = op[1]
            nargs = op[2] if len(op) > 2 else 1
            kws = op[3] if len(op) > 3 else []
            args = []
            for _ in range(nargs):
                tokn[0] += 1
                args.append(Token(tokn[0]))
            kwargs = {}
            for k in kws:
                tokn[0] += 1
                kwargs[k] = Token(tokn[0])
            rec = {'ev': ev, 'args': tuple(args), 'kwargs': kwargs,
                   'at_call': set(registered), 'changed': set(),
                   'nested': inside}
            calls.append(rec)
            stack.append(len(calls) - 1)
            if inside:
                flags.add('re-entrant')
            if kwargs:
                flags.add('kwargs')
            if ever_removed:
                flags.add('removal-then-dispatch')
            try:
                d.dispatch(ev, *args, **kwargs)
            finally:
                stack.pop()

    nontrivial = False
    for at, op in enumerate(case['ops']):
        first_call = len(calls)
        first_log = len(log)
        try:
            act(op)
        except Exception as ex:
            res.div(at, 'operation-raised', f'{op[0]} raised '
                    f'{type(ex).__name__}: {ex}', 'no exception', repr(ex),
                    op=op)
            break
        # judge every dispatch call made by this operation
        entries = log[first_log:]
        by_call = collections.defaultdict(list)
        for entry in entries:
            by_call[entry['call']].append(entry)
        if None in by_call:
            res.div(at, 'callback-outside-dispatch', 'a callback ran outside '
                    'any dispatch call', None, by_call[None][0]['fn'])
            break
        for ci in range(first_call, len(calls)):
            rec = calls[ci]
            if rec.get('skip'):
                # deliveries of a release are the subject of C04
                continue
            res.stats['dispatch_calls_checked'] += 1
            got = collections.Counter()
            for entry in by_call.get(ci, []):
                res.stats['deliveries_checked'] += 1
                want_fn = expected_fn(entry['recv'], rec['ev'])
                if want_fn is None or tuple(entry['fn']) != want_fn:
                    res.div(at, 'wrong-method', 'a method not mapped to the '
                            'event (for that handler) was called',
                            expected=want_fn, observed=entry['fn'],
                            event=rec['ev'], handler=entry['recv'])
                    break
                same = (len(entry['args']) == len(rec['args'])
                        and all(a is b for a, b in zip(entry['args'],
                                                       rec['args']))
                        and set(entry['kwargs']) == set(rec['kwargs'])
                        and all(entry['kwargs'][k] is v
                                for k, v in rec['kwargs'].items()))
                if not same:
                    res.div(at, 'wrong-arguments', 'callback arguments differ '
                            'from the dispatched ones',
                            expected=[rec['args'], rec['kwargs']],
                            observed=[entry['args'], entry['kwargs']])
                    break
                got[entry['recv']] += 1
            if res.divs:
                break
            listeners = {hi for hi in rec['at_call']
                         if expected_fn(hi, rec['ev']) is not None}
            stable = listeners - rec['changed']
            for hi in set(got) | listeners:
                n = got.get(hi, 0)
                if rec.get('interrupted'):
                    good = n <= 1
                    exp = 'at most once (the dispatch was interrupted by a '\
                          'raising callback)'
                elif hi in stable:
                    good = n == 1
                    exp = 'exactly once'
                elif hi in rec['changed']:
                    good = n <= 1
                    exp = 'at most once (registration changed meanwhile)'
                    res.stats['dontcare_changed_during_dispatch'] += 1
                else:
                    good = n == 0
                    exp = 'never (not registered when dispatch was called)'
                if not good:
                    res.div(at, 'delivery-count', f'handler {hi} received '
                            f'event {rec["ev"]} {n} time(s)', expected=exp,
                            observed=n, nested=rec['nested'])
                    break
            if res.divs:
                break
            cls_on_event = {case['handlers'][hi] for hi in stable}
            if len(stable) >= 2 and len(cls_on_event) >= 2 and flags:
                nontrivial = True
            res.tags['listeners_per_dispatch'].add(len(listeners))
        if res.divs:
            break
        # registration as reported
        for hi, h in enumerate(handlers):
            if h is None:
                continue
            res.stats['is_handler_checks'] += 1
            try:
                reg = d.is_handler(h)
            except Exception as ex:
                reg = repr(ex)
            if reg != (hi in registered):
                res.div(at, 'registration-mismatch', f'is_handler(handler '
                        f'{hi})', expected=hi in registered, observed=reg)
                break
        if res.divs:
            break

    # bases unaltered at the end
    for bi, (obj, snap) in enumerate(snapshots):
        now = getattr(classes[bi], '__events__', None)
        if (None if now is None else dict(now)) != snap:
            res.div(len(case['ops']), 'base-mapping-altered',
                    f'H{bi}.__events__ changed after its decoration',
                    expected=snap, observed=now)
    res.nontrivial = nontrivial
    for f in flags:
        res.tags['flags'].add(f)
    res.sample = {'dispatch_calls': len(calls), 'deliveries': len(log),
                  'flags': sorted(flags)}
    return res


def classify(case, div):
    if div['kind'] == 'mapping-mismatch' and div.get('cls') is not None:
        spec = case['classes'][div['cls']]
        if not spec['decorated'] and spec.get('base2') is not None:
            return 'undecorated-class-first-base-mapping-only'
    return None
