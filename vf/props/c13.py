"""C13 - World switching delivers in/out events to the worlds that run."""
import itertools
import random

from vf import import_desper
from vf.core import Res, HarnessError

ID = 'C13'
LEVEL = 'exploration'
RULE = ('2-4 WorldHandle subclasses whose transform functions build a world '
        'with a unique id, a logging component (on_add, on_world_load, '
        'on_switch_in/out, on_update, probe), logging processors before and '
        'after the issuer and the default processors; scripts of 1-6 switch '
        'requests among them incl. to the current handle, every combination '
        'of clear_current/clear_next, cached and not-yet-loaded targets, '
        'issued from a processor, from an on_update callback or from a '
        'coroutine, from_world explicit or taken from desper.default_loop, '
        'through switch() or a raw raise SwitchWorld; at every frame start '
        'the harness dispatches a probe on every world that was left; '
        'virtual time; the script ends with Quit. All scripts of <=2 requests '
        'over 2 handles are enumerated, longer ones sampled. Oracle (trace '
        'checker over one log): frame abandoned at the request, next '
        "iteration processes the target handle's current instance, fresh "
        'instance with clear flags, on_switch_out once in the left world, '
        'on_switch_in once in the instance that runs, after its load-time '
        'callbacks and before its first process, left worlds deliver nothing '
        'until re-entered. Non-trivial = >=2 switches with a return to a '
        'previously left world that had events queued, or any clear flag. '
        'Chain sub-workload: the world being entered asks, from its '
        'on_switch_in / pending on_add / on_world_load / a held event, to '
        'switch on (1-3 links): the loop must end up processing the last '
        'target only.'
        ' Rounds 9-13 added: load-time callbacks owed after a cut entry;'
        ' value-like handles; clear_current judged per request of a chain.')
ANCHORS = [
    'desper/loop.py::switch',
    'desper/loop.py::Loop.switch',
    'desper/loop.py::SimpleLoop.switch',
    'desper/loop.py::SimpleLoop.loop',
]
MIN_NONTRIVIAL = {'quick': 1000, 'thorough': 50000}
MIN_STATS = {'switch_requests_checked': 5000}
EXHAUSTIVE = {
    'quick': 'all scripts of 1 or 2 requests over 2 handles x target x '
             'clear_current x clear_next x {switch() explicit/default '
             'from_world, raw SwitchWorld} x issuer {processor, on_update, '
             'coroutine}',
    'thorough': 'the quick sub-space plus random scripts of up to 6 requests '
                'over up to 4 handles'}
ASSUMPTIONS = [
    "don't-care: number of loads; order of on_switch_in relative to "
    'unrelated pending events of the entered world',
    'a switch requested by a callback the loop itself releases while '
    'executing a switch (entry callbacks of the world being entered) is '
    'judged by the chain sub-workload only: which world finally runs, '
    'on_switch_out once per world left, on_switch_in once in the world that '
    'runs; whether an intermediate world still receives its own on_switch_in '
    'is not judged; coroutine issuers are one-shot per world instance',
    'for raw raise SwitchWorld only the which-world-runs clauses are judged',
]

ISSUERS = ['proc', 'on_update', 'coroutine']
HOW = ['switch_explicit', 'switch_default', 'raise']


def all_requests(nhandles):
    for target in range(nhandles):
        for cc in (False, True):
            for cn in (False, True):
                for how in HOW:
                    for issuer in ISSUERS:
                        yield {'target': target, 'cc': cc, 'cn': cn,
                               'how': how, 'issuer': issuer, 'delay': 0}


def gen_cases(tier, seed):
    single = list(all_requests(2))
    for r in single:
        yield {'handles': 2, 'script': [r]}
    for a in single:
        for b in single:
            yield {'handles': 2, 'script': [a, b]}
    n = 500 if tier == 'quick' else 16 * 20000
    for i in range(n):
        rng = random.Random(f'C13/{seed}/{tier}/{i}')
        nh = rng.randint(2, 4)
        script = []
        for _ in range(rng.randint(2, 6)):
            script.append({'target': rng.randrange(nh),
                           'cc': rng.random() < 0.3, 'cn': rng.random() < 0.3,
                           'how': rng.choice(HOW),
                           'issuer': rng.choice(ISSUERS),
                           'delay': rng.choice([0, 0, 1, 2]),
                           # the program empties the handle of the running
                           # world itself just before asking to switch
                           'preclear': rng.random() < 0.12})
        yield {'handles': nh, 'script': script,
               # many events sent to the worlds that were left
               'flood': rng.choice([0, 0, 0, 300]),
               # the loop is NOT desper.default_loop (from_world explicit)
               'own_loop': rng.random() < 0.3,
               # worlds are instances of a World subclass that is falsy
               'falsy_world': rng.random() < 0.3,
               # value-like handles: distinct handles compare (and hash)
               # equal
               'equal_handles': rng.random() < 0.25}
    for i in range(400 if tier == 'quick' else 16 * 2000):
        yield gen_chain(random.Random(f'C13/chain/{seed}/{tier}/{i}'))
    for i in range(3 if tier == 'quick' else 48):
        rng = random.Random(f'C13/scale/{seed}/{tier}/{i}')
        yield {'handles': 2, 'flood': 300, 'falsy_world': i % 2 == 1,
               'own_loop': i % 3 == 0,
               'script': [{'target': 1, 'cc': False, 'cn': False,
                           'how': rng.choice(HOW[:2]), 'issuer': 'proc',
                           'delay': 0},
                          {'target': 0, 'cc': False, 'cn': False,
                           'how': rng.choice(HOW[:2]),
                           'issuer': rng.choice(ISSUERS), 'delay': 1},
                          {'target': 1, 'cc': False, 'cn': False,
                           'how': 'switch_explicit', 'issuer': 'proc',
                           'delay': 0}]}


CHAIN_AT = ['on_switch_in', 'on_add', 'on_world_load', 'held_event']


def gen_chain(rng):
    """A switch requested by a callback that the loop itself releases while
    it executes a switch (entry callbacks of the world being entered)."""
    depth = rng.randint(1, 3)
    return {'mode': 'chain',
            'links': [{'at': rng.choice(CHAIN_AT), 'cc': rng.random() < 0.25,
                       'cn': rng.random() < 0.25,
                       'explicit': rng.random() < 0.5}
                      for _ in range(depth)],
            'first': {'cc': rng.random() < 0.25, 'cn': rng.random() < 0.25,
                      'issuer': rng.choice(['proc', 'on_update'])},
            'frames_after': rng.randint(1, 3),
            'own_loop': rng.random() < 0.25,
            # afterwards the last world switches back to a world of the
            # chain (one whose entry was cut short by its own request)
            'return_to': rng.randint(1, depth) if rng.random() < 0.5
            else None}


def run_chain(case):
    desper = import_desper()
    res = Res()
    log = []
    st = {'clock': 0, 'uid': 0, 'link': 0, 'fired_first': False,
          'frames_after': 0}
    links = case['links']
    nh = len(links) + 2
    instances = {}

    def entry(kind, w, **kw):
        log.append(dict(kind=kind, w=w, seq=len(log), **kw))

    def time_function():
        st['clock'] += 1
        if st['clock'] > 100:
            raise HarnessError('chain scenario did not end')
        return st['clock']

    loop = desper.SimpleLoop(time_function)

    def chain(world, at):
        """Called from the entry callbacks of handle k+1: request link k."""
        k = st['link']
        h = handles[world.handle_index]
        if k >= len(links) or world.handle_index != k + 1 \
                or links[k]['at'] != at or not st['fired_first'] \
                or not (h.cached and h() is world):
            # (an instance discarded by a clear flag stays silent)
            return
        st['link'] += 1
        link = links[k]
        target = handles[k + 2]
        entry('request', world.uid, link=k, at=at,
              current_is_world=loop.current_world is world)
        kwargs = {}
        if link['explicit'] or case['own_loop']:
            kwargs['from_world'] = world
        desper.switch(target, clear_current=link['cc'], clear_next=link['cn'],
                      **kwargs)

    @desper.event_handler('on_add', 'on_world_load', 'on_switch_in',
                          'on_switch_out', 'on_update', 'probe')
    class Logger:
        def on_add(self, entity, world):
            self.world = world
            entry('on_add', world.uid)
            chain(world, 'on_add')

        def on_world_load(self, handle, world):
            entry('on_world_load', world.uid)
            chain(world, 'on_world_load')

        def on_switch_in(self, from_world, to_world):
            entry('on_switch_in', self.world.uid,
                  frm=getattr(from_world, 'uid', None),
                  to=getattr(to_world, 'uid', None))
            chain(self.world, 'on_switch_in')

        def on_switch_out(self, from_world, to_world):
            entry('on_switch_out', self.world.uid,
                  frm=getattr(from_world, 'uid', None),
                  to=getattr(to_world, 'uid', None))

        def on_update(self, dt):
            entry('on_update', self.world.uid)
            fire_first(self.world, 'on_update')

        def probe(self, token):
            entry('probe', self.world.uid, token=token)
            chain(self.world, 'held_event')

    def fire_first(world, issuer):
        if st['fired_first'] or case['first']['issuer'] != issuer:
            return
        st['fired_first'] = True
        entry('request', world.uid, link=-1, at=issuer,
              current_is_world=True)
        target = handles[1]
        # the worlds of the chain are loaded (their load-time callbacks
        # stay pending) and sent an event that they hold
        for k, link in enumerate(links):
            h = handles[k + 1]
            if link['at'] == 'held_event' and not (
                    (case['first']['cn'] and k == 0)
                    or (k > 0 and links[k - 1]['cn'])):
                w = h()
                w.dispatch('probe', 99)
        st['armed_all'] = True
        kwargs = {'from_world': world} if case['own_loop'] else {}
        desper.switch(target, clear_current=case['first']['cc'],
                      clear_next=case['first']['cn'], **kwargs)

    class Issuer(desper.Processor):
        def process(self, dt=1):
            w = self.world
            entry('process_start', w.uid,
                  is_current=loop.current_world is w,
                  handle_ok=loop.current_world_handle
                  is handles[w.handle_index])
            if st.get('returned') and w.handle_index == case['return_to']:
                st['frames_back'] = st.get('frames_back', 0) + 1
                if st['frames_back'] >= 2:
                    raise desper.Quit()
                return
            if st['fired_first'] and st['link'] >= len(links) \
                    and w.handle_index == nh - 1:
                st['frames_after'] += 1
                if st['frames_after'] >= case['frames_after']:
                    k = case.get('return_to')
                    if k is None or st.get('returned'):
                        raise desper.Quit()
                    st['returned'] = True
                    back = handles[k]
                    inst = back() if back.cached else None
                    if inst is not None:
                        # an event for the world that was left: it holds it
                        inst.dispatch('probe', 77)
                    entry('return_request', w.uid, to_handle=k,
                          cached_uid=getattr(inst, 'uid', None))
                    kwargs = {'from_world': w} if case['own_loop'] else {}
                    desper.switch(back, **kwargs)
            elif st['fired_first']:
                # a world of the chain was processed although its entry
                # callbacks had asked to go on: judged from the log
                if st['clock'] > 50:
                    raise desper.Quit()
            fire_first(w, 'proc')

    def build(handle, world):
        st['uid'] += 1
        world.uid = st['uid']
        world.handle_index = handle.index
        instances[world.uid] = world
        entry('load', world.uid, handle=handle.index)
        world.add_processor(Issuer())
        world.create_entity(Logger())

    class LH(desper.WorldHandle):
        def __init__(self, index):
            super().__init__()
            self.index = index
            self.transform_functions.append(
                desper.default_processors_transformer)
            self.transform_functions.append(build)

    handles = [LH(i) for i in range(nh)]
    saved = desper.default_loop
    if not case['own_loop']:
        desper.default_loop = loop
    outcome = 'returned'
    try:
        loop.switch(handles[0])
        loop.start()
    except Exception as ex:
        outcome = f'{type(ex).__name__}: {ex}'
    finally:
        desper.default_loop = saved
    res.stats['chained_switch_runs'] += 1
    res.tags['chain_shape'].add(tuple(l['at'] for l in links))
    tail = [_short(e) for e in log[-8:]]
    if outcome != 'returned':
        res.div(len(log), 'chain-run-raised', 'a switch requested by an '
                'entry callback of the world being entered ended the loop: '
                + outcome, 'start() returns after Quit', outcome, tail=tail)
        return res
    # ---- the return to a world of the chain
    ret = next((e for e in log if e['kind'] == 'return_request'), None)
    if ret is not None:
        after = log[ret['seq'] + 1:]
        back_frames = [e for e in after if e['kind'] == 'process_start']
        res.stats['returns_to_a_world_of_the_chain'] += 1
        if not back_frames or any(
                instances[e['w']].handle_index != ret['to_handle']
                or not e['is_current'] for e in back_frames):
            res.div(ret['seq'], 'chain-return-wrong-world', 'after switching '
                    'back, the iterations must process the target handle',
                    ret['to_handle'], [_short(e) for e in back_frames[:3]],
                    tail=tail)
            return res
        Wb = back_frames[0]['w']
        ins = [e for e in after if e['kind'] == 'on_switch_in'
               and e['w'] == Wb and e['frm'] == ret['w']]
        if len(ins) != 1 or ins[0]['seq'] > back_frames[0]['seq']:
            res.div(ret['seq'], 'chain-return-switch-in', 'a world whose '
                    'earlier entry was cut short by its own switch request '
                    'must, when it is entered again, receive on_switch_in '
                    'once before its first frame', 1,
                    [_short(e) for e in ins], tail=tail)
            return res
        if ret['cached_uid'] == Wb:
            probes = [e for e in after if e['kind'] == 'probe'
                      and e['w'] == Wb and e.get('token') == 77]
            if len(probes) != 1:
                res.div(ret['seq'], 'chain-return-held-events', 'the event '
                        'the world was sent while it was left must be '
                        'delivered once when it is entered again', 1,
                        len(probes), tail=tail)
                return res
            # ... and so must the load-time callbacks that its own request
            # had left undelivered (it "holds its events until it is
            # entered again"): each once, before its first frame back
            for kind in ('on_add', 'on_world_load'):
                seen = [e for e in log if e['kind'] == kind and e['w'] == Wb]
                res.stats['held_load_callbacks_checked'] += 1
                if len(seen) != 1 or seen[0]['seq'] > back_frames[0]['seq']:
                    res.div(ret['seq'], 'chain-return-load-callbacks',
                            f'the load-time callback {kind} of a world whose '
                            'entry was cut short by its own switch request '
                            'must have been delivered exactly once by the '
                            'time it runs again', 1,
                            [_short(e) for e in seen], tail=tail)
                    return res
        log = log[:ret['seq']]
    requests = [e for e in log if e['kind'] == 'request']
    if len(requests) != len(links) + 1:
        # a link did not fire (e.g. its world instance was replaced by a
        # clear flag before it could act): nothing to judge
        res.stats['chain_incomplete'] += 1
        res.sample = {'log': [_short(e) for e in log[:30]]}
        return res
    res.stats['switch_requests_checked'] += len(requests)
    last = requests[-1]
    frames = [e for e in log if e['kind'] == 'process_start'
              and e['seq'] > requests[0]['seq']]
    final_handle = nh - 1
    bad = [e for e in frames
           if instances[e['w']].handle_index != final_handle
           or not e['is_current'] or not e['handle_ok']]
    if bad or not frames:
        res.div(len(log), 'chain-wrong-world-runs', 'after a chain of switch '
                'requests the iterations must process the last target only',
                f'handle {final_handle}', [_short(e) for e in (bad or frames)]
                [:3], tail=tail)
        return res
    W = frames[0]['w']
    # every request: on_switch_out once in the world that asked, with it as
    # first argument, before anything of the next world runs
    for r in requests:
        outs = [e for e in log if e['kind'] == 'on_switch_out'
                and e['frm'] == r['w']]
        if [(e['w'],) for e in outs] != [(r['w'],)]:
            res.div(r['seq'], 'chain-switch-out', 'on_switch_out must be '
                    'delivered exactly once in the world being left',
                    [r['w']], [_short(e) for e in outs], tail=tail)
            return res
    ins = [e for e in log if e['kind'] == 'on_switch_in' and e['w'] == W]
    if [(e['frm'], e['to']) for e in ins] != [(last['w'], W)] \
            or ins[0]['seq'] > frames[0]['seq']:
        res.div(last['seq'], 'chain-switch-in', 'on_switch_in(from, to) must '
                'be delivered once in the world that finally runs, before '
                'its first frame', [(last['w'], W)],
                [_short(e) for e in ins], tail=tail)
        return res
    # clear_current of every request of the chain: the handle that was left
    # keeps the world that asked exactly when its own request did not say
    # clear_current (the flags of ANOTHER request of the chain do not count)
    if ret is None:
        flags_of = [case['first']['cc']] + [l['cc'] for l in links]
        for k, r in enumerate(requests):
            h = handles[k]
            asked = instances[r['w']]
            keeps = h.cached and h() is asked
            res.stats['chain_clear_current_checked'] += 1
            if keeps == flags_of[k]:
                res.div(r['seq'], 'chain-clear-current', f'request {k} of the '
                        f'chain (clear_current={flags_of[k]}): afterwards '
                        'the handle that was left '
                        + ('still holds' if keeps else 'no longer holds')
                        + ' the world that asked', not flags_of[k], keeps,
                        tail=tail)
                return res
    # intermediate worlds were left again: they hold whatever they get
    for e in log:
        if e['kind'] in ('on_update',) and e['seq'] > requests[0]['seq'] \
                and e['w'] != W:
            res.div(e['seq'], 'chain-left-world-delivered', 'a world that '
                    'was left delivered an event', 'held', _short(e))
            return res
    res.nontrivial = True
    res.sample = {'log': [_short(e) for e in log[:30]]}
    return res


def run_case(case):
    if case.get('mode') == 'chain':
        return run_chain(case)
    desper = import_desper()
    res = Res()
    log = []
    st = {'ptr': 0, 'frames': 0, 'uid': 0, 'clock': 0}
    instances = {}
    script = case['script']

    def entry(kind, world_uid, **kw):
        log.append(dict(kind=kind, w=world_uid, seq=len(log), **kw))

    def time_function():
        st['clock'] += 1
        if st['clock'] > 300:
            raise HarnessError('script did not end')
        return st['clock']

    loop = desper.SimpleLoop(time_function)

    def uid_of(world):
        return getattr(world, 'uid', None)

    def maybe_fire(world, issuer):
        if st['ptr'] >= len(script):
            if issuer == 'proc':
                entry('quit', world.uid)
                raise desper.Quit()
            return
        req = script[st['ptr']]
        # frames counts from 1 at the first frame after the last request
        if st['frames'] - 1 < req['delay']:
            return
        eff = req['issuer']
        if eff == 'coroutine' and world.coro_dead:
            eff = 'proc'
        if issuer != eff:
            return
        index = st['ptr']
        st['ptr'] += 1
        st['frames'] = 0
        target = handles[req['target']]
        cur_handle = loop.current_world_handle
        if req.get('preclear'):
            cur_handle.clear()
            res.tags['current_handle_cleared_by_program'].add(True)
        entry('request', world.uid, index=index, issuer=eff,
              target_cached_uid=(uid_of(target()) if target.cached else None),
              current_handle=hindex(cur_handle),
              uid_counter=st['uid'])
        if issuer == 'coroutine':
            world.coro_dead = True
        if req['how'] == 'raise':
            raise desper.SwitchWorld(target, req['cc'], req['cn'])
        kwargs = {}
        if req['how'] == 'switch_explicit' or case.get('own_loop'):
            kwargs['from_world'] = world
        desper.switch(target, clear_current=req['cc'], clear_next=req['cn'],
                      **kwargs)

    class ProcA(desper.Processor):
        priority = -10

        def process(self, dt=1):
            w = self.world
            st['frames'] += 1
            h = loop.current_world_handle
            entry('process_start', w.uid, dt=dt,
                  handle=hindex(h),
                  handle_uid=(uid_of(h()) if h is not None and h.cached
                              else None),
                  is_current=loop.current_world is w)
            # events dispatched on worlds that were left must be held
            burst = 1
            if case.get('flood') and not st.get('flooded') \
                    and len(instances) > 1:
                st['flooded'] = True
                burst = case['flood']
            for uid, other in instances.items():
                if other is not w:
                    for _ in range(burst):
                        st['probe'] = st.get('probe', 0) + 1
                        entry('probe_sent', uid, token=st['probe'])
                        other.dispatch('probe', st['probe'])

    class IssuerProc(desper.Processor):
        priority = 5

        def process(self, dt=1):
            entry('issuer_proc', self.world.uid)
            maybe_fire(self.world, 'proc')

    class ProcZ(desper.Processor):
        priority = 10

        def process(self, dt=1):
            entry('procZ', self.world.uid)

    @desper.event_handler('on_add', 'on_world_load', 'on_switch_in',
                          'on_switch_out', 'on_update', 'probe')
    class Logger:
        def on_add(self, entity, world):
            self.world = world
            entry('on_add', world.uid)

        def on_world_load(self, handle, world):
            entry('on_world_load', world.uid, handle=hindex(handle))

        def on_switch_in(self, from_world, to_world):
            entry('on_switch_in', self.world.uid, frm=uid_of(from_world),
                  to=uid_of(to_world))

        def on_switch_out(self, from_world, to_world):
            entry('on_switch_out', self.world.uid, frm=uid_of(from_world),
                  to=uid_of(to_world))

        def on_update(self, dt):
            entry('on_update', self.world.uid)
            maybe_fire(self.world, 'on_update')

        def probe(self, token):
            entry('probe', self.world.uid, token=token)

    @desper.event_handler('on_update')
    class Bystander:
        def on_update(self, dt):
            entry('on_update', self.uid)

    def coroutine(world):
        while True:
            entry('coroutine_step', world.uid)
            maybe_fire(world, 'coroutine')
            yield

    def build(handle, world):
        st['uid'] += 1
        world.uid = st['uid']
        world.coro_dead = False
        world.handle_index = handle.index
        instances[world.uid] = world
        entry('load', world.uid, handle=handle.index)
        world.add_processor(ProcA())
        world.add_processor(IssuerProc())
        world.add_processor(ProcZ())
        world.create_entity(Logger())
        for _ in range(2):
            other = Bystander()
            other.uid = world.uid
            world.create_entity(other)
        world.get_processor(desper.CoroutineProcessor).start(coroutine(world))

    class FalsyWorld(desper.World):
        """A user World subclass whose instances are falsy."""
        def __len__(self):
            return 0

    class LH(desper.WorldHandle):
        def __init__(self, index):
            super().__init__()
            self.index = index
            self.transform_functions.append(
                desper.default_processors_transformer)
            self.transform_functions.append(build)

        if case.get('equal_handles'):
            def __eq__(self, other):
                return isinstance(other, desper.WorldHandle)

            def __hash__(self):
                return 13

        def load(self):
            if not case.get('falsy_world'):
                return super().load()
            # what WorldHandle.load documents, for a World subclass
            world = FalsyWorld()
            world.dispatch_enabled = False
            for transform_function in self.transform_functions:
                transform_function(self, world)
            world.dispatch('on_world_load', self, world)
            return world

    handles = [LH(i) for i in range(case['handles'])]

    def hindex(h):
        # (by identity: handles may be value-like objects)
        return next((i for i, x in enumerate(handles) if x is h), None)
    saved = desper.default_loop
    if not case.get('own_loop'):
        desper.default_loop = loop
    else:
        res.tags['loop_is_default'].add(False)
    outcome = 'returned'
    try:
        loop.switch(handles[0])
        entry('initial', loop.current_world.uid)
        loop.start()
    except Exception as ex:
        outcome = f'{type(ex).__name__}: {ex}'
    finally:
        desper.default_loop = saved
    if outcome != 'returned':
        res.div(len(log), 'run-raised', 'the loop did not end with Quit: '
                + outcome, 'start() returns', outcome,
                tail=[_short(e) for e in log[-6:]])
    else:
        judge(case, res, log, handles)
    res.sample = {'log': [_short(e) for e in log[:40]]}
    return res


def _short(e):
    return ' '.join(f'{k}={v}' for k, v in e.items() if k != 'seq')


FRAME_KINDS = {'process_start', 'issuer_proc', 'procZ', 'on_update',
               'coroutine_step', 'quit'}


def judge(case, res, log, handles):
    script = case['script']
    requests = [e for e in log if e['kind'] == 'request']

    def fail(at, kind, what, expected, observed, **kw):
        res.div(at, kind, what, expected=expected, observed=observed,
                request=script[at] if 0 <= at < len(script) else None, **kw)
        return False

    if len(requests) != len(script):
        return fail(len(requests), 'script-incomplete', 'not every scripted '
                    'request was issued', len(script), len(requests))
    entered_at = {}         # world uid -> seq from which it is current
    first = next(e for e in log if e['kind'] == 'initial')
    current = first['w']
    current_since = first['seq']
    left = {}               # uid -> seq at which it was left (still left)
    held = set()            # left through switch(), not entered again yet
    held_since = {}         # uid -> log index at which it was left that way
    queued_while_left = set()
    returned_with_queue = False
    for r, req_entry in enumerate(requests):
        req = script[r]
        res.stats['switch_requests_checked'] += 1
        res.tags['request_shape'].add(
            (req['how'], req['issuer'], req['cc'], req['cn'],
             req['target'] == req_entry['current_handle'],
             req_entry['target_cached_uid'] is not None))
        p = req_entry['seq']
        F = req_entry['w']
        nxt = next((e for e in log[p + 1:] if e['kind'] == 'process_start'),
                   None)
        if nxt is None:
            return fail(r, 'no-next-frame', 'no iteration after the request',
                        'a frame of the target world', None)
        window = log[p + 1:nxt['seq']]
        # (a) the current frame is abandoned
        late = [e for e in window if e['kind'] in FRAME_KINDS]
        if late:
            return fail(r, 'frame-not-abandoned', 'code of the abandoned '
                        'frame ran after the switch request', [],
                        [_short(e) for e in late])
        # (b) the next iteration processes the target handle's instance
        W = nxt['w']
        if nxt['handle'] != req['target'] or nxt['handle_uid'] != W \
                or not nxt['is_current']:
            return fail(r, 'wrong-world-runs', 'the iteration after the '
                        'request does not process the current instance of '
                        'the target handle',
                        {'handle': req['target'], 'instance': 'its current'},
                        {'handle': nxt['handle'], 'runs': W,
                         'handle_instance': nxt['handle_uid']})
        same_handle = req['target'] == req_entry['current_handle']
        must_be_fresh = req['cn'] or (req['cc'] and same_handle) or (
            bool(req.get('preclear')) and same_handle)
        fresh = W > req_entry['uid_counter']
        if must_be_fresh and not fresh:
            return fail(r, 'not-fresh', 'a clear flag was given but the world '
                        'instance that runs is not a fresh one', 'fresh',
                        f'instance {W} existed before the request')
        if not must_be_fresh and req_entry['target_cached_uid'] is not None \
                and W != req_entry['target_cached_uid']:
            return fail(r, 'cached-instance-replaced', 'no clear flag for the '
                        'target, yet its cached instance was replaced',
                        req_entry['target_cached_uid'], W)
        if req['cc'] and not same_handle:
            h = handles[req_entry['current_handle']]
            if h.cached and getattr(h(), 'uid', None) == F \
                    and not _reentered_later(requests, script, r,
                                             req_entry['current_handle']):
                return fail(r, 'left-not-cleared', 'clear_current was given '
                            'but the left handle still yields the old '
                            'instance', 'fresh instance', F)
        # (c) events, only for requests that went through switch()
        outs = [e for e in window if e['kind'] == 'on_switch_out']
        ins = [e for e in window if e['kind'] == 'on_switch_in']
        if req['how'] != 'raise':
            if [(e['w'], e['frm']) for e in outs] != [(F, F)]:
                return fail(r, 'switch-out', 'on_switch_out must be delivered '
                            'exactly once, in the world being left, with that '
                            'world as first argument', [(F, F)],
                            [(e['w'], e['frm'], e['to']) for e in outs])
            if [(e['w'], e['frm'], e['to']) for e in ins] != [(W, F, W)]:
                return fail(r, 'switch-in', 'on_switch_in(from, to) must be '
                            'delivered exactly once in the world instance '
                            'that is actually entered', [(W, F, W)],
                            [(e['w'], e['frm'], e['to']) for e in ins],
                            loads=[e['w'] for e in window
                                   if e['kind'] == 'load'])
            if outs[0]['to'] != W:
                res.stats['dontcare_switch_out_to_arg'] += 1
            if outs[0]['seq'] > ins[0]['seq']:
                # the world is left before the other one is entered (for two
                # different worlds a late on_switch_out would be held until
                # the left world is entered again; the same must hold when
                # both are one world)
                return fail(r, 'switch-order', 'on_switch_out of the world '
                            'being left was delivered after on_switch_in of '
                            'the world being entered', ['on_switch_out',
                                                        'on_switch_in'],
                            [e['kind'] for e in window
                             if e['kind'].startswith('on_switch')])
            load_cbs = [e['seq'] for e in log[:nxt['seq']]
                        if e['w'] == W and e['kind'] in ('on_add',
                                                         'on_world_load')]
            if load_cbs and max(load_cbs) > ins[0]['seq']:
                return fail(r, 'switch-in-order', 'on_switch_in was delivered '
                            "before the entered world's own load-time "
                            'callbacks', 'on_add, on_world_load, on_switch_in',
                            [e['kind'] for e in window if e['w'] == W])
            need = {'on_add', 'on_world_load'} if fresh else set()
            have = {e['kind'] for e in log[:ins[0]['seq']] if e['w'] == W}
            if not need <= have:
                return fail(r, 'switch-in-order', 'the entered world got '
                            'on_switch_in without its load-time callbacks '
                            'before it', sorted(need), sorted(have))
        else:
            res.stats['raw_switchworld_requests'] += 1
        # (d) worlds that were left hold their events until re-entered
        if req['how'] != 'raise':
            held.add(F)         # switch() makes the left world hold events
        held.discard(W)
        for e in window:
            if e['kind'] == 'probe' and e['w'] in held:
                return fail(r, 'left-world-delivered', 'a world that was left '
                            'through switch() delivered an event before being '
                            'entered again', 'held', _short(e))
        if W in left and W != F:
            if any(e['kind'] == 'probe' and e['w'] == W for e in window):
                returned_with_queue = True
        if W in held_since and W != F:
            sent = [e['token'] for e in log[held_since[W]:p + 1]
                    if e['kind'] == 'probe_sent' and e['w'] == W]
            got = [e['token'] for e in window
                   if e['kind'] == 'probe' and e['w'] == W]
            res.stats['held_events_checked'] += len(sent)
            res.tags['held_queue_length'].add(min(len(sent) // 50 * 50, 400))
            if got != sent:
                missing = [t for t in sent if t not in set(got)]
                return fail(r, 'held-events-release', 'a world that was left '
                            'through switch() must deliver, when it is '
                            'entered again, exactly the events it was sent '
                            'meanwhile, in order', f'{len(sent)} events',
                            f'{len(got)} delivered; first missing '
                            f'{missing[:3]}', sent=len(sent), got=len(got))
        held_since.pop(W, None)
        if req['how'] != 'raise' and F != W:
            held_since[F] = p
        elif req['how'] == 'raise':
            held_since.pop(F, None)
        left[F] = p
        left.pop(W, None)
        frames = log[nxt['seq']:requests[r + 1]['seq']] if r + 1 < len(
            requests) else log[nxt['seq']:]
        for e in frames:
            if e['kind'] == 'probe' and e['w'] in held:
                return fail(r, 'left-world-delivered', 'a world that was left '
                            'through switch() delivered an event before being '
                            'entered again', 'held', _short(e))
            if e['kind'] in ('on_switch_in', 'on_switch_out'):
                return fail(r, 'stray-switch-event', 'switch event outside a '
                            'switch', None, _short(e))
            if e['kind'] in FRAME_KINDS and e['w'] != W:
                return fail(r, 'wrong-world-runs', 'a world other than the '
                            'entered one was processed', W, _short(e))
    res.nontrivial = (len(script) >= 2 and returned_with_queue) or any(
        q['cc'] or q['cn'] for q in script)
    return True


def _reentered_later(requests, script, r, handle_index):
    return any(script[k]['target'] == handle_index
               for k in range(r + 1, len(script)))


def shrink(case):
    if case.get('mode') == 'chain':
        links = case['links']
        if len(links) > 1:
            yield dict(case, links=links[:-1])
        for i, l in enumerate(links):
            for key in ('cc', 'cn', 'explicit'):
                if l[key]:
                    new = [dict(x) for x in links]
                    new[i][key] = False
                    yield dict(case, links=new)
        for key in ('cc', 'cn'):
            if case['first'][key]:
                yield dict(case, first=dict(case['first'], **{key: False}))
        return
    script = case['script']
    for i in range(len(script)):
        if len(script) > 1:
            yield dict(case, script=script[:i] + script[i + 1:])
    for i, q in enumerate(script):
        for key, val in (('delay', 0), ('cc', False), ('cn', False),
                         ('issuer', 'proc')):
            if q[key] != val:
                new = [dict(x) for x in script]
                new[i][key] = val
                yield dict(case, script=new)


def classify(case, div):
    return None
