"""C09 - Coroutine lifecycle: state, kill, restart and promise are coherent."""
import collections
import gc
import random
import weakref
from fractions import Fraction

from vf import import_desper
from vf import session
from vf.core import Res, HarnessError


class HarnessInterrupt(BaseException):
    """A scripted fault that is not an Exception (as KeyboardInterrupt,
    SystemExit, GeneratorExit, asyncio.CancelledError are not)."""

ID = 'C09'
LEVEL = 'exploration'
RULE = ('histories of start, kill (processor.kill or promise.kill), re-start, '
        'state reads and process(dt) over 1-5 scripted coroutines in every '
        'phase (never started, runnable, waiting, finished, killed), issued '
        'from outside and - through scripted bodies - from inside other '
        "coroutines' and their own steps; non-generator arguments; returned "
        'values of several kinds. Monitor: step log + result/exception of '
        'every call + a state read of every generator and promise after every '
        'call. Oracle: lifecycle automaton per generator with a per-coroutine '
        'clock; operations from outside are predicted, frames are checked by '
        'a trace checker that replays the observed step/act log in order '
        '(every step legal at that point, every coroutine runnable at frame '
        'start and not killed before its turn stepped exactly once). Release '
        'sub-workload: the harness keeps only weak references; after '
        'gc.collect() a finished or killed generator must be dead no later '
        'than the frame in which it would next have run. Non-trivial = a kill '
        'or restart applied to a coroutine that is waiting or was started in '
        'the same frame, or a release case with a killed waiter.'
        ' Rounds 9-13 added: many sleepers with restarts through the'
        ' lifecycle oracle; bodies raising exceptions that are not'
        ' Exceptions.'
        ' Round 14 added: sleepers over hours of game time.')
ANCHORS = [
    'desper/logic/coroutines.py::CoroutineProcessor.start',
    'desper/logic/coroutines.py::CoroutineProcessor.kill',
    'desper/logic/coroutines.py::CoroutineProcessor.state',
    'desper/logic/coroutines.py::CoroutineProcessor.process',
    'desper/logic/coroutines.py::CoroutinePromise.state',
    'desper/logic/coroutines.py::CoroutinePromise.kill',
]
MIN_NONTRIVIAL = {'quick': 400, 'thorough': 8000}
MIN_STATS = {'calls_checked': 10000, 'state_reads_checked': 50000,
             'release_checks': 1000}
ASSUMPTIONS = [
    "don't-care: the frame (f or f+1) of the first step after an in-body "
    '(re)start; what a coroutine that kills itself sees for the rest of its '
    'current step; value of promises superseded by a later start()',
    'restart of a killed waiter resumes it as runnable (its wait is dropped)',
]

RETS = [None, 0, 'x', 42, [1, 2], {'a': 1}, False]


def gen_script(rng, nc, inbody):
    script = []
    for _ in range(rng.randint(0, 6)):
        k = rng.random()
        if k < 0.45:
            y = None
        elif k < 0.55:
            y = rng.choice([0, -1])
        else:
            y = rng.choice([0.5, 1, 1, 2, 3, 1.5])
        acts = []
        if inbody and rng.random() < 0.25:
            for _ in range(rng.randint(1, 2)):
                acts.append([rng.choice(['start', 'kill', 'kill', 'state']),
                             rng.randrange(nc)])
        script.append({'y': y, 'acts': acts})
    return script


def gen_one(rng, tier, index):
    if index % 5 == 4:
        return gen_release(rng, tier)
    big = tier == 'thorough' and rng.random() < 0.5
    nc = rng.randint(1, 5)
    inbody = rng.random() < 0.5
    coros = [{'script': gen_script(rng, nc, inbody),
              'ret': rng.randrange(len(RETS))} for _ in range(nc)]
    ops = []
    for _ in range(rng.randint(3, 50 if big else 25)):
        k = rng.random()
        if k < 0.25:
            ops.append(['start', rng.randrange(nc)])
        elif k < 0.45:
            ops.append(['kill', rng.randrange(nc), rng.random() < 0.5])
        elif k < 0.5:
            ops.append(['state', rng.randrange(nc)])
        elif k < 0.53:
            ops.append([rng.choice(['start_bad', 'kill_bad', 'state_bad']),
                        rng.randrange(4)])
        else:
            ops.append(['process', rng.choice([0, 0.5, 1, 1, 2])])
    return {'mode': 'main', 'coros': coros, 'ops': ops}


def gen_release(rng, tier):
    nc = rng.randint(1, 4)
    coros = []
    inbody = rng.random() < 0.5
    for _ in range(nc):
        script = []
        for _ in range(rng.randint(0, 4)):
            acts = []
            if inbody and rng.random() < 0.2:
                # target nc means "myself"
                acts.append(['kill', rng.randrange(nc + 1)])
            script.append({'y': rng.choice([None, None, 0.5, 1, 2, 3]),
                           'acts': acts})
        final = []
        if inbody and rng.random() < 0.25:
            final.append(['kill', rng.choice([nc, rng.randrange(nc)])])
        coros.append({'script': script, 'ret': rng.randrange(len(RETS)),
                      'start': rng.randrange(3),
                      'kill': rng.randrange(1, 8) if rng.random() < 0.5
                      else None, 'final_acts': final,
                      'keep_promise': rng.random() < 0.15})
    if rng.random() < 0.25:
        # one body raises at some step: the frame fails, and everything
        # that was to be released is released one frame later at most
        c = rng.choice(coros)
        c['script'].insert(rng.randint(0, len(c['script'])),
                           {'y': None, 'acts': [], 'raise': True})
    return {'mode': 'release', 'coros': coros,
            'dts': [rng.choice([0.5, 1, 1, 2])
                    for _ in range(rng.randint(4, 12))]}


def gen_scale(rng):
    nc = 110
    coros = []
    for k in range(nc):
        long_wait = k % 3 != 0
        script = [{'y': rng.choice([20, 30, 50]) if long_wait else None,
                   'acts': []}] + [{'y': rng.choice([None, 1, 0.5]),
                                    'acts': []} for _ in range(4)]
        coros.append({'script': script, 'ret': k % len(RETS)})
    ops = [['start', k] for k in range(nc)] + [['process', 1]]
    victims = rng.sample(range(nc), 85)
    for k in victims:
        ops.append(['kill', k, rng.random() < 0.3])
        if rng.random() < 0.04:
            ops.append(['process', 0.5])
    ops += [['process', 1], ['state', victims[0]], ['process', 1]]
    for k in rng.sample(victims, 10):
        ops.append(['start', k])
    ops += [['process', 1], ['process', 60], ['process', 1]]
    return {'mode': 'main', 'coros': coros, 'ops': ops}


def gen_sleepers(rng):
    """Many coroutines asleep at once, each for another time; some of them
    are killed and started again before their time (a pending kill that is
    cancelled takes the sleeper out of the wait queue): nobody else's
    wake-up frame may move."""
    nc = rng.randint(6, 16)
    waits = rng.sample(range(2, 4 * nc), nc)
    if rng.random() < 0.3:
        waits = [w / 2 for w in waits]
    coros = [{'script': [{'y': waits[k], 'acts': []}]
              + [{'y': rng.choice([None, 1, 2]), 'acts': []}
                 for _ in range(rng.randint(0, 2))],
              'ret': k % len(RETS)} for k in range(nc)]
    # every fourth population sleeps for hours (one time unit = 512 s: the
    # processor's clock gets large while somebody is always asleep), and
    # the restarts then come after some of that time has passed
    scale = 512 if rng.random() < 0.25 else 1
    if scale != 1:
        for c in coros:
            for step in c['script']:
                if step['y']:
                    step['y'] = step['y'] * scale
    ops = [['start', k] for k in range(nc)]
    ops.append(['process', rng.choice([0, 1]) * scale])
    for _ in range(rng.randint(0, 2) if scale == 1 else rng.randint(4, 12)):
        ops.append(['process', scale])
    for k in rng.sample(range(nc), rng.randint(1, 3)):
        ops.append(['kill', k, rng.random() < 0.5])
        if rng.random() < 0.3:
            ops.append(['state', k])
        ops.append(['start', k])
    ops += [['process', rng.choice([1, 1, 1, 0.5, 2]) * scale]
            for _ in range(4 * nc + 4)]
    return {'mode': 'main', 'coros': coros, 'ops': ops}


def gen_cases(tier, seed):
    for i in range(400 if tier == 'quick' else 16 * 600):
        yield gen_sleepers(random.Random(f'C09/sleepers/{seed}/{tier}/{i}'))
    # whole "game sessions" (vf/session.py): the features used together,
    # judged by the self-consistency invariants of this property
    for i in range(150 if tier == 'quick' else 16 * 300):
        yield session.gen(random.Random(f'C09/session/{seed}/{tier}/{i}'),
                          tier)
    # clean-up code (a `finally:` of a coroutine that the processor drops)
    # that starts another killed coroutine again
    for i in range(200 if tier == 'quick' else 16 * 400):
        rng = random.Random(f'C09/final/{seed}/{tier}/{i}')
        n = rng.randint(2, 4)
        yield {'mode': 'finalizer', 'n': n,
               'waits': [rng.choice([1, 1, 2, 3]) for _ in range(n)],
               'owner': rng.randrange(n),
               'target': rng.randrange(n),
               'killed': [rng.random() < 0.8 for _ in range(n)],
               'dt': rng.choice([5, 5, 1.5, 2])}
    for i in range(2 if tier == 'quick' else 32):
        yield gen_scale(random.Random(f'C09/scale/{seed}/{tier}/{i}'))
    n = 3000 if tier == 'quick' else 16 * 10000
    for i in range(n):
        yield gen_one(random.Random(f'C09/{seed}/{tier}/{i}'), tier, i)


BAD = [None, 3, 'gen', [1]]


class Model:
    """Lifecycle automaton of one generator."""

    def __init__(self, script):
        self.script = script
        self.st = 'new'         # new active paused done killed
        self.next = 0
        self.acc = self.n = None
        self.exhausted = False  # generator object already returned

    def expected_state(self, enum):
        if self.st == 'active':
            return enum.ACTIVE
        if self.st == 'paused':
            return enum.PAUSED
        return enum.TERMINATED


def run_finalizer(case):
    """n sleepers, most of them killed while paused; the `finally:` of one
    of them (referenced by the processor only) starts another one again.
    Where and when CPython runs that clean-up is its own business; whenever
    it runs, start() must either return a promise - and the target then
    carries on from where it stopped - or refuse with ValueError and change
    nothing."""
    desper = import_desper()
    enum = desper.CoroutineState
    res = Res()
    proc = desper.CoroutineProcessor()
    n = case['n']
    steps = collections.defaultdict(list)
    outcome = []
    gens = [None] * n

    def body(k):
        try:
            steps[k].append(0)
            yield case['waits'][k]
            steps[k].append(1)
            yield
            steps[k].append(2)
        finally:
            if k == case['owner'] and case['target'] != k:
                t = case['target']
                before = None
                try:
                    before = proc.state(gens[t])
                    promise = proc.start(gens[t])
                    outcome.append(('returned', promise, before))
                except BaseException as ex:     # noqa: B902 - judged
                    outcome.append(('raised', ex, before))

    owner = case['owner']
    promises = []
    for k in range(n):
        g = body(k)
        gens[k] = g if k != owner else None
        promises.append(proc.start(g))
        if k == owner:
            owner_ref = weakref.ref(g)
        del g
    proc.process(0)             # everybody pauses
    for k in range(n):
        if case['killed'][k] or k == owner:
            promises[k].kill()
    promises[owner] = None      # only the processor references the owner
    gc.collect()
    res.stats['finalizer_scenarios'] += 1
    try:
        proc.process(case['dt'])
        for _ in range(4):
            proc.process(1)
    except Exception as ex:
        res.div(1, 'process-raised', f'{type(ex).__name__}: {ex!r}',
                'no exception', repr(ex))
        return res
    if owner_ref() is not None:
        gc.collect()
    if not outcome:
        res.stats['finalizer_never_ran'] += 1
        return res
    kind, value, before = outcome[0]
    res.tags['finalizer_start_outcome'].add(
        kind if kind == 'returned' else type(value).__name__)
    t = case['target']
    if kind == 'raised' and not isinstance(value, (ValueError, TypeError)):
        res.div(2, 'start-raised-unexpected', 'start() of a generator, called '
                'from the clean-up code of a coroutine the processor was '
                f'dropping, raised {type(value).__name__} (target state '
                f'before the call: {before})',
                'a promise, or ValueError and nothing changed',
                repr(value))
        return res
    if kind == 'returned':
        # it carries on from where it stopped: steps 0, 1, 2 once each
        if steps[t] != [0, 1, 2]:
            res.div(3, 'restart-did-not-carry-on', f'coroutine {t} was '
                    'started again by clean-up code; its steps afterwards',
                    [0, 1, 2], steps[t])
            return res
    for k in range(n):
        if len(set(steps[k])) != len(steps[k]):
            res.div(3, 'step-repeated', f'coroutine {k}', None, steps[k])
            return res
        if case['killed'][k] and k != t and len(steps[k]) > 1:
            res.div(3, 'killed-code-ran', f'coroutine {k} was killed while '
                    'paused and ran again', [0], steps[k])
            return res
    res.nontrivial = True
    res.sample = {'outcome': kind, 'steps': dict(steps)}
    return res


def run_case(case):
    if case.get('scenario') == 'session':
        return session.run(case, 'C09')
    if case['mode'] == 'finalizer':
        return run_finalizer(case)
    if case['mode'] == 'release':
        return run_release(case)
    desper = import_desper()
    enum = desper.CoroutineState
    res = Res()
    proc = desper.CoroutineProcessor()
    nc = len(case['coros'])
    log = []                    # frame trace: ('step', k, idx) / ('act', ...)
    gens = [None] * nc
    promises = [None] * nc
    rets = [[k, RETS[c['ret']]] for k, c in enumerate(case['coros'])]
    models = [Model(c['script']) for c in case['coros']]
    flags = set()
    frame_started = set()       # coroutines (re)started since the last frame

    def body(k):
        script = case['coros'][k]['script']
        for i, item in enumerate(script):
            log.append(('step', k, i))
            for name, target in item['acts']:
                log.append(('act', k, name, target) + do_call(name, target))
            yield item['y']
        log.append(('step', k, len(script)))
        return rets[k]

    for k in range(nc):
        gens[k] = body(k)

    def do_call(name, target, via_promise=False):
        """Perform one API call; returns (outcome, value)."""
        try:
            if name == 'start':
                p = proc.start(gens[target])
                return ('ok', p)
            if name == 'kill':
                if via_promise and promises[target] is not None:
                    promises[target].kill()
                else:
                    proc.kill(gens[target])
                return ('ok', None)
            if name == 'state':
                return ('ok', proc.state(gens[target]))
        except ValueError as ex:
            return ('ValueError', ex)
        except TypeError as ex:
            return ('TypeError', ex)
        except Exception as ex:
            return ('error', ex)

    def apply_call(at, who, name, target, outcome, value, in_frame):
        """Check one call against the automaton and advance it."""
        m = models[target]
        res.stats['calls_checked'] += 1
        if in_frame and m.st == 'active' and m.exhausted:
            # a restarted *finished* generator runs no code when the
            # processor reaches it, so whether that already happened in this
            # frame is unobservable: follow the outcome (don't-care)
            enum_t = enum.TERMINATED
            if ((name == 'kill' and outcome == 'ValueError')
                    or (name == 'state' and outcome == 'ok'
                        and value == enum_t)
                    or (name == 'start' and outcome == 'ok')):
                m.st = 'done'
                m.exhausted = False
                in_frame['must'].discard(target)
                res.stats['dontcare_exhausted_order'] += 1
        if name == 'start':
            legal = m.st in ('new', 'done', 'killed')
            if legal != (outcome == 'ok'):
                res.div(at, 'start-outcome', f'start(coroutine {target}) in '
                        f'state {m.st} (issued by {who})',
                        'promise' if legal else 'ValueError',
                        outcome if outcome == 'ok' else repr(value))
                return False
            if legal:
                if m.st == 'killed':
                    flags.add('restart-after-kill')
                    if m.acc is not None:
                        flags.add('restart-killed-waiter')
                if m.st == 'done':
                    m.exhausted = True
                if target in frame_started or in_frame:
                    flags.add('same-frame')
                m.st = 'active'
                m.acc = m.n = None
                promises[target] = value
                if value.generator is not gens[target] \
                        or value.processor is not proc:
                    res.div(at, 'promise-identity', 'promise does not name '
                            'its generator/processor', None, None)
                    return False
                frame_started.add(target)
                if in_frame:
                    in_frame['restarted'].add(target)
        elif name == 'kill':
            legal = m.st in ('active', 'paused')
            if legal != (outcome == 'ok'):
                res.div(at, 'kill-outcome', f'kill(coroutine {target}) in '
                        f'state {m.st} (issued by {who})',
                        'accepted' if legal else 'ValueError',
                        outcome if outcome == 'ok' else repr(value))
                return False
            if legal:
                if m.st == 'paused':
                    flags.add('kill-waiter')
                if target in frame_started:
                    flags.add('same-frame')
                m.st = 'killed'
                if in_frame:
                    in_frame['killed'].add(target)
                    in_frame['restarted'].discard(target)
        elif name == 'state':
            want = m.expected_state(enum)
            if outcome != 'ok' or value != want:
                res.div(at, 'state-mismatch', f'state(coroutine {target}) '
                        f'read by {who}', str(want),
                        str(value) if outcome == 'ok' else repr(value),
                        model_state=m.st)
                return False
        return True

    def sweep(at):
        for k in range(nc):
            m = models[k]
            want = m.expected_state(enum)
            res.stats['state_reads_checked'] += 1
            try:
                got = proc.state(gens[k])
            except Exception as ex:
                got = repr(ex)
            if got != want:
                res.div(at, 'state-mismatch', f'state(coroutine {k}) after '
                        'the operation', str(want), str(got),
                        model_state=m.st)
                return False
            p = promises[k]
            if p is not None:
                res.stats['state_reads_checked'] += 1
                if p.state != want:
                    res.div(at, 'promise-state', f'promise.state of '
                            f'coroutine {k}', str(want), str(p.state))
                    return False
                want_value = rets[k] if m.value_owner is p else None
                if m.value_dontcare:
                    res.stats['dontcare_value_after_self_kill'] += 1
                elif p.value is not want_value:
                    res.div(at, 'promise-value', f'promise.value of coroutine '
                            f'{k} (state {m.st})', repr(want_value),
                            repr(p.value))
                    return False
        return True

    for m in models:
        m.value_owner = None            # promise that received the value
        m.value_dontcare = False

    for at, op in enumerate(case['ops']):
        name = op[0]
        if name in ('start', 'kill', 'state'):
            outcome, value = do_call(name, op[1],
                                     via_promise=len(op) > 2 and op[2])
            if not apply_call(at, 'outside', name, op[1], outcome, value, None):
                break
        elif name.endswith('_bad'):
            arg = BAD[op[1]]
            res.stats['calls_checked'] += 1
            try:
                getattr(proc, name[:-4])(arg)
                got = 'accepted'
            except TypeError:
                got = 'TypeError'
            except Exception as ex:
                got = repr(ex)
            if got != 'TypeError':
                res.div(at, 'non-generator', f'{name[:-4]}({arg!r})',
                        'TypeError', got)
                break
        elif name == 'process':
            if not run_frame(at, op[1], res, proc, models, log, promises,
                             rets, apply_call, frame_started, flags, gens,
                             enum):
                break
        if not sweep(at):
            break
    res.nontrivial = bool(flags & {'kill-waiter', 'same-frame',
                                   'restart-killed-waiter'})
    for f in flags:
        res.tags['flags'].add(f)
    res.sample = {'trace_tail': [list(map(str, e[:4])) for e in log[-12:]],
                  'flags': sorted(flags)}
    return res


def run_frame(at, dt, res, proc, models, log, promises, rets, apply_call,
              frame_started, flags, gens, enum):
    nc = len(models)
    # wake-ups happen before any body runs
    must = set()
    for k, m in enumerate(models):
        if m.st == 'paused':
            m.acc += Fraction(dt)
            if m.acc >= m.n:
                m.st = 'active'
                m.acc = m.n = None
        if m.st == 'active':
            must.add(k)
    before = len(log)
    try:
        proc.process(dt)
    except Exception as ex:
        res.div(at, 'process-raised', 'process() failed: '
                f'{type(ex).__name__}: {ex!r}', 'no exception', repr(ex))
        return False
    trace = log[before:]
    res.stats['frames'] += 1
    frame = {'killed': set(), 'restarted': set(), 'must': must}
    self_killed, self_restarted = set(), set()
    stepped = {}
    current = None              # coroutine whose step is in progress

    def end_step():
        k = current
        if k is None:
            return
        m = models[k]
        idx = stepped[k]
        if idx >= len(m.script):
            # the generator returned
            if m.st == 'active':
                m.st = 'done'
                m.value_owner = promises[k]
            elif m.st == 'killed':
                # killed itself during its last step: whether the promise
                # still receives the value is not stated
                m.value_dontcare = True
            return
        m.next = idx + 1
        y = m.script[idx]['y']
        if m.st == 'active' and y is not None and y > 0:
            m.st = 'paused'
            m.n = Fraction(y)
            m.acc = Fraction(0)

    for entry in trace:
        if entry[0] == 'step':
            end_step()
            _, k, idx = entry
            m = models[k]
            res.stats['steps_checked'] += 1
            legal = m.st == 'active' and (
                k in must or k in frame['restarted'])
            if k in stepped and k not in frame['restarted']:
                res.div(at, 'double-step', f'coroutine {k} advanced twice in '
                        'one frame', 1, 2)
                return False
            if not legal:
                kind = 'killed-code-ran' if m.st == 'killed' else 'illegal-step'
                res.div(at, kind, f'coroutine {k} ran a step while '
                        f'{m.st}', 'no step', f'step {idx}',
                        killed_this_frame=k in frame['killed'])
                return False
            if idx != m.next:
                res.div(at, 'wrong-step', f'coroutine {k} did not carry on '
                        'from where it stopped', m.next, idx)
                return False
            stepped[k] = idx
            frame['restarted'].discard(k)
            must.discard(k)
            current = k
        else:
            _, who, name, target, outcome, value = entry
            if not apply_call(at, f'coroutine {who}', name, target, outcome,
                              value, frame):
                return False
            if name == 'kill' and outcome == 'ok':
                must.discard(target)
                if target == who:
                    flags.add('self-kill')
                    self_killed.add(who)
            if name == 'start' and outcome == 'ok' and target == who \
                    and who in self_killed:
                self_restarted.add(who)
    end_step()
    # a coroutine that killed AND restarted itself inside one step: what the
    # value it then yields means is not stated (don't-care) - follow the
    # processor for its ACTIVE/PAUSED state
    for k in self_restarted:
        m = models[k]
        if m.st not in ('active', 'paused'):
            continue
        try:
            seen = proc.state(gens[k])
        except Exception:
            continue
        res.stats['dontcare_self_restart_yield'] += 1
        if seen == enum.ACTIVE and m.st == 'paused':
            m.st, m.acc, m.n = 'active', None, None
        elif seen == enum.PAUSED and m.st == 'active':
            idx = stepped.get(k)
            y = m.script[idx]['y'] if idx is not None and idx < len(
                m.script) else None
            if y is not None and y > 0:
                m.st, m.n, m.acc = 'paused', Fraction(y), Fraction(0)
    # restarted finished generators: exhausted, dropped without running code
    for k, m in enumerate(models):
        if m.st == 'active' and m.exhausted and k not in stepped:
            if k in frame['restarted']:
                # started inside this frame: found exhausted now or next
                # frame (don't-care): follow the processor
                try:
                    gone = proc.state(gens[k]) == enum.TERMINATED
                except Exception:
                    gone = False
                res.stats['dontcare_inframe_restart_of_finished'] += 1
                if not gone:
                    continue
            m.st = 'done'
            m.exhausted = False
            must.discard(k)
    for k in sorted(must):
        res.div(at, 'missed-step', f'coroutine {k} was runnable at the start '
                'of the frame, not killed, and was not advanced', 1, 0,
                state=models[k].st)
        return False
    frame_started.clear()
    return True


# --------------------------------------------------------------------------
# release sub-workload
# --------------------------------------------------------------------------

def run_release(case):
    desper = import_desper()
    res = Res()
    proc = desper.CoroutineProcessor()
    steps = []
    nc = len(case['coros'])
    refs = [None] * nc
    kept = {}
    models = [Model(c['script']) for c in case['coros']]
    due_at = {}                 # k -> frame by whose end it must be dead
    frame = [0]
    flags = set()
    fault = []

    def kill(target, inside):
        """Kill through a temporary strong reference (dropped at once)."""
        m = models[target]
        if refs[target] is None:
            return
        g = refs[target]()
        if g is None:
            return
        try:
            proc.kill(g)
        except ValueError:
            return
        finally:
            del g
        if m.st == 'paused':
            flags.add('killed-waiter')
        elif m.st == 'active':
            # would have run in this frame (outside kill) or, conservatively,
            # by the end of the next one (kill from inside a body)
            due_at[target] = frame[0] + (1 if inside else 0)
        flags.add('kill-inside' if inside else 'kill-outside')
        m.killed_from = m.st
        m.st = 'killed'

    def body(k, script, ret):
        for i, item in enumerate(script):
            steps.append((k, i))
            for name, target in item['acts']:
                kill(target if target < nc else k, True)
            if item.get('raise'):
                # (every other time an exception that is NOT an Exception:
                # KeyboardInterrupt-like; the program catches it all the same)
                fault.append((HarnessInterrupt if (k + len(fault)) % 2
                              else HarnessError)(
                    f'coroutine {k} raises'))
                raise fault[-1]
            yield item['y']
        steps.append((k, len(script)))
        for name, target in case['coros'][k].get('final_acts', []):
            kill(target if target < nc else k, True)
            if (target if target < nc else k) == k:
                flags.add('self-kill-in-final-step')
        return ret

    for f, dt in enumerate(case['dts']):
        frame[0] = f
        for k, c in enumerate(case['coros']):
            if c['start'] == f:
                g = body(k, c['script'], [k])
                refs[k] = weakref.ref(g)
                p = proc.start(g)
                if c['keep_promise']:
                    kept[k] = p
                del g, p
                models[k].st = 'active'
            if c['kill'] == f:
                kill(k, False)
        for k, m in enumerate(models):
            if m.acc is not None and m.st in ('paused', 'killed'):
                m.acc += Fraction(dt)
                if m.acc >= m.n:
                    if m.st == 'paused':
                        m.st = 'active'
                    else:
                        due_at.setdefault(k, f)
                    m.acc = m.n = None
        before = len(steps)
        nfaults = len(fault)
        failed = False
        try:
            proc.process(dt)
        except (Exception, HarnessInterrupt) as ex:
            if len(fault) == nfaults + 1 and ex is fault[-1]:
                failed = True
                flags.add('frame-failed-by-raising-body')
                fault[-1] = None    # its traceback references the generator
            else:
                res.div(f, 'process-raised', f'{type(ex).__name__}: {ex!r}',
                        'no exception', repr(ex))
                break
            del ex
        for k, idx in steps[before:]:
            m = models[k]
            if idx < len(m.script) and m.script[idx].get('raise'):
                # over for good; conservatively due by the next frame
                if m.st == 'active':
                    m.st = 'done'
                due_at[k] = f + 1
                continue
            if idx >= len(m.script):
                if m.st == 'active':
                    m.st = 'done'
                due_at[k] = min(due_at.get(k, f + 1), f + 1) \
                    if m.st == 'killed' else f
                continue
            y = m.script[idx]['y']
            if m.st == 'active' and y is not None and y > 0:
                m.st, m.n, m.acc = 'paused', Fraction(y), Fraction(0)
            elif m.st == 'killed' and y is not None and y > 0 \
                    and m.acc is None:
                # killed itself, then asked to wait: would next have run at
                # the end of that wait
                m.n, m.acc = Fraction(y), Fraction(0)
                due_at.pop(k, None)
        gc.collect()
        if failed:
            # the frame was abandoned before the turn of the coroutines
            # queued after the raising one
            for k in due_at:
                due_at[k] = max(due_at[k], f + 1)
        for k in [k for k, when in due_at.items() if when <= f]:
            m = models[k]
            del due_at[k]
            res.stats['release_checks'] += 1
            if k in kept:
                # a promise kept by the program legitimately keeps the
                # generator alive: nothing to observe from outside
                res.stats['dontcare_promise_kept'] += 1
                continue
            g = refs[k]()
            if g is not None:
                holders = [type(r).__name__ for r in gc.get_referrers(g)]
                del g
                res.div(f, 'not-released', f'{m.st} coroutine {k} is still '
                        'strongly referenced after the frame in which it '
                        'would next have run', 'released', 'alive',
                        referrers=holders[:6], flags=sorted(flags))
                break
            m.st = 'released'
        if res.divs:
            break
    res.nontrivial = bool(flags)
    res.tags['flags'].add('release')
    for fl in flags:
        res.tags['release_flags'].add(fl)
    res.sample = {'steps': steps[:12], 'flags': sorted(flags)}
    return res


def shrink(case):
    if case['mode'] == 'finalizer':
        return
    if case['mode'] != 'main':
        if len(case['dts']) > 1:
            yield dict(case, dts=case['dts'][:-1])
        return
    ops = case['ops']
    for n in range(len(ops) - 1, -1, -1):
        yield dict(case, ops=ops[:n] + ops[n + 1:])
    for i, c in enumerate(case['coros']):
        for j, item in enumerate(c['script']):
            if item['acts']:
                new = [dict(x, script=[dict(s) for s in x['script']])
                       for x in case['coros']]
                new[i]['script'][j]['acts'] = item['acts'][:-1]
                yield dict(case, coros=new)


def classify(case, div):
    return None
