"""C07 - Processors run once per frame in priority order, one per type."""
import collections
import random

from vf import import_desper
from vf import session
from vf.core import Res, HarnessError

ID = 'C07'
LEVEL = 'exploration'
RULE = ('random histories of add_processor(p[, priority]) (new instances, '
        're-adding a registered or removed instance, replacing the processor '
        'of the same exact type), remove_processor(T) by exact and base type, '
        'process(dt) with unique dt tokens and dispatch_enabled toggles, over '
        '3-6 processor classes in a small hierarchy with class-level default '
        'priorities, explicit priorities from a small set incl. 0 and '
        'negatives (many ties); some processors are handlers with on_add/'
        'on_remove. Monitor: log of (instance, dt) per process() call, '
        'lifecycle log, processors, get_processor(T) for all T, p.world after '
        'every operation. Oracle: list kept by stable sort on (priority, '
        'insertion sequence). Non-trivial = a frame with >=3 processors '
        'containing a priority tie after an insertion that landed strictly '
        'inside the order.'
        ' Rounds 9-13 added: every processor callback reads'
        ' world.processors; the pinned suite under the one-per-type'
        ' invariant.')
ANCHORS = [
    'desper/logic/world.py::World.add_processor',
    'desper/logic/world.py::World.remove_processor',
    'desper/logic/world.py::World.get_processor',
    'desper/logic/world.py::World.process',
    'desper/bisect.py::insort_right',
    'desper/bisect.py::bisect_right',
]
MIN_NONTRIVIAL = {'quick': 300, 'thorough': 5000}
MIN_STATS = {'process_calls_checked': 5000}
ASSUMPTIONS = ['order of lifecycle callbacks inside one operation not judged',
               'a processor ADDED during a frame may or may not run in it; '
               'for a replacement whose on_remove adds a processor of the '
               'same type only the final registration (one per type, the '
               'processor that was being added) is judged',
               'p.world after removal is not judged']

PRIOS = [-3, -1, 0, 0, 1, 1, 2, 3]


def gen_one(rng, tier, scale=False):
    big = tier == 'thorough' and rng.random() < 0.5
    ncls = rng.randint(3, 6) if not scale else 50
    classes = []
    for i in range(ncls):
        base = rng.randrange(i) if i and rng.random() < 0.5 else None
        classes.append({'base': base,
                        'prio': rng.choice([None, None, -1, 0, 1, 2]),
                        'shape': rng.choice(['', '', 'a', 'r', 'ar'])})
    prios = PRIOS if rng.random() < 0.6 else [-1, 0, 1]
    if scale:
        prios = list(range(-6, 7)) + [0, 0, 100, -100, 2 ** 40]
    ops = []
    enabled = True
    extreme = [0]
    for _ in range(rng.randint(2, 40 if big else 20) if not scale else 220):
        k = rng.random()
        if k < 0.45:
            prio = rng.choice(prios) if rng.random() < 0.6 else None
            if scale and rng.random() < 0.12:
                # a new global minimum / maximum (lands at either end of a
                # long list)
                extreme[0] += 1
                prio = rng.choice([-1000 - extreme[0], 1000 + extreme[0]])
            reuse = rng.randrange(6) if rng.random() < 0.2 else None
            act = None
            if rng.random() < 0.12:
                act = rng.choice([['rm_self'], ['rm', rng.randrange(ncls)],
                                  ['add', rng.randrange(ncls)]])
            ops.append(['addp', rng.randrange(ncls), prio, reuse, act])
        elif k < (0.6 if not scale else 0.5):
            if enabled and not scale and rng.random() < 0.12:
                # replacement whose on_remove adds, in turn, a processor of
                # the type being replaced (a third instance, or the very
                # instance that is being added)
                ops.append(['addp_reentrant', rng.randrange(ncls),
                            rng.choice(['third', 'incoming'])])
            elif enabled and not scale and rng.random() < 0.15:
                # the on_add of the added processor raises; the program
                # catches the exception and carries on
                ops.append(['addp_fault', rng.randrange(ncls),
                            rng.choice(prios) if rng.random() < 0.6
                            else None])
            else:
                ops.append(['rmp', rng.randrange(ncls)])
        elif k < 0.9:
            ops.append(['process'])
        else:
            enabled = not enabled
            ops.append(['enable', enabled])
    ops.append(['process'])
    # processors of different classes may compare equal (user __eq__)
    return {'classes': classes, 'ops': ops,
            'equal_all': rng.random() < 0.2}


def gen_cases(tier, seed):
    # the repository's own tests as a workload (vf/suite_monitor.py)
    yield {'scenario': 'suite'}
    # whole "game sessions" (vf/session.py): the features used together,
    # judged by the self-consistency invariants of this property
    for i in range(150 if tier == 'quick' else 16 * 300):
        yield session.gen(random.Random(f'C07/session/{seed}/{tier}/{i}'),
                          tier)
    for i in range(5 if tier == 'quick' else 48):
        yield gen_one(random.Random(f'C07/scale/{seed}/{tier}/{i}'), tier,
                      scale=True)
    n = 6000 if tier == 'quick' else 16 * 10000
    for i in range(n):
        yield gen_one(random.Random(f'C07/{seed}/{tier}/{i}'), tier)


def run_case(case):
    if case.get('scenario') == 'suite':
        from vf import suite_monitor
        return suite_monitor.run_suite(ID)
    if case.get('scenario') == 'session':
        return session.run(case, 'C07')
    desper = import_desper()
    res = Res()
    log = []
    state = {'world': None}
    reads = []              # reads of world.processors inside callbacks

    def make_class(i, spec, base):
        ns = {}

        def process(self, dt=1):
            log.append(('proc', self.uid, dt))
            act = getattr(self, 'act', None)
            if act is not None:
                self.act = None
                inframe(self, act)
        ns['process'] = process
        if spec['prio'] is not None:
            ns['priority'] = spec['prio']
        if case.get('equal_all'):
            ns['__eq__'] = lambda self, other: isinstance(
                other, desper.Processor)
            ns['__hash__'] = lambda self: 7
        if 'a' in spec['shape']:
            def on_add(self, *args):
                log.append(('add', self.uid, args,
                            state['world'].dispatch_enabled,
                            self.world is state['world']))
                # a callback may look at the processors (not judged here,
                # mid-change; what is listed afterwards is)
                reads.append(len(state['world'].processors))
                if getattr(self, 'fail_on_add', False):
                    self.fail_on_add = False
                    state['fault'] = HarnessError('on_add failed')
                    raise state['fault']
            ns['on_add'] = on_add
        if 'r' in spec['shape']:
            def on_remove(self, *args):
                log.append(('remove', self.uid, args,
                            state['world'].dispatch_enabled, None))
                reads.append(len(state['world'].processors))
                todo = getattr(self, 'readd', None)
                if todo is not None:
                    self.readd = None
                    state['world'].add_processor(todo)
            ns['on_remove'] = on_remove
        cls = type(f'P{i}', (base,), ns)
        names = [n for k, n in (('a', 'on_add'), ('r', 'on_remove'))
                 if k in spec['shape']]
        if names:
            cls = desper.event_handler(*names)(cls)
        return cls

    classes, events = [], []
    for i, spec in enumerate(case['classes']):
        base = desper.Processor if spec['base'] is None \
            else classes[spec['base']]
        inherited = set() if spec['base'] is None \
            else set(events[spec['base']])
        classes.append(make_class(i, spec, base))
        events.append(inherited | set(spec['shape']))

    w = desper.World()
    state['world'] = w
    order = []              # model: [(priority, seq, p)]
    by_type = {}
    instances = []
    seq = 0
    enabled = True
    postponed = []
    removed_ever = set()
    tie_insert = False

    def expect_life(kind, p):
        return (kind, p.uid) if kind[0] in events[p.cls_index] else None

    def fail(at, kind, what, expected, observed, **kw):
        res.div(at, kind, what, expected=expected, observed=observed, **kw)

    frame = {'changed': set(), 'life': []}

    def model_remove(got):
        by_type.pop(type(got))
        order[:] = [x for x in order if x[2] is not got]
        removed_ever.add(got.uid)
        frame['changed'].add(got.uid)
        frame.setdefault('removed_at', {})[got.uid] = len(log)
        frame['life'].append(expect_life('remove', got))

    def model_add(q, prio):
        nonlocal seq
        t = type(q)
        if t in by_type:
            model_remove(by_type[t])
        seq += 1
        order.append((prio, seq, q))
        order.sort(key=lambda x: (x[0], x[1]))
        by_type[t] = q
        removed_ever.discard(q.uid)
        frame['changed'].add(q.uid)
        frame['life'].append(expect_life('add', q))

    def inframe(actor, act):
        """A processor changes the registrations while the frame runs."""
        res.stats['inframe_acts'] += 1
        if act[0] == 'add':
            q = classes[act[1]]()
            q.uid = len(instances)
            q.cls_index = act[1]
            instances.append(q)
            readable = q.priority
            w.add_processor(q)
            model_add(q, readable)
            return
        t = type(actor) if act[0] == 'rm_self' else classes[act[1]]
        match = [x for ct, x in by_type.items() if issubclass(ct, t)]
        got = w.remove_processor(t)
        legal = [by_type[t]] if t in by_type else match
        if (not legal and got is not None) or (
                legal and not any(got is x for x in legal)):
            frame['bad'] = ([x.uid for x in legal],
                            getattr(got, 'uid', repr(got)))
            return
        if legal:
            model_remove(got)

    for at, op in enumerate(case['ops']):
        frame['changed'] = set()
        frame['life'] = []
        frame['removed_at'] = {}
        frame.pop('bad', None)
        del log[:]
        name = op[0]
        want_life = []
        skip_life = False
        try:
            if name == 'addp':
                if op[3] is not None and instances:
                    p = instances[op[3] % len(instances)]
                else:
                    p = classes[op[1]]()
                    p.uid = len(instances)

                    p.cls_index = op[1]
                    p.act = op[4] if len(op) > 4 else None
                    instances.append(p)
                t = type(p)
                readable = p.priority
                w.add_processor(p, op[2]) if op[2] is not None \
                    else w.add_processor(p)
                if t in by_type:
                    old = by_type.pop(t)
                    order[:] = [x for x in order if x[2] is not old]
                    removed_ever.add(old.uid)
                    want_life.append(expect_life('remove', old))
                prio = op[2] if op[2] is not None else readable
                seq += 1
                order.append((prio, seq, p))
                order.sort(key=lambda x: (x[0], x[1]))
                by_type[t] = p
                removed_ever.discard(p.uid)
                want_life.append(expect_life('add', p))
                pos = [id(x[2]) for x in order].index(id(p))
                if 0 < pos < len(order) - 1 and len(order) >= 3:
                    prs = [x[0] for x in order]
                    if len(set(prs)) < len(prs):
                        tie_insert = True
                if p.world is not w:
                    fail(at, 'world-not-set', 'added processor does not know '
                         'its world', 'the world', repr(p.world))
                    break
            elif name == 'addp_reentrant':
                t = classes[op[1]]
                if 'r' not in events[op[1]] or not enabled \
                        or t not in by_type:
                    continue
                old = by_type[t]
                p = t()
                p.uid = len(instances)
                p.cls_index = op[1]
                p.act = None
                instances.append(p)
                if op[2] == 'third':
                    third = t()
                    third.uid = len(instances)
                    third.cls_index = op[1]
                    third.act = None
                    instances.append(third)
                    removed_ever.add(third.uid)
                    old.readd = third
                else:
                    old.readd = p
                readable = p.priority
                w.add_processor(p)
                res.stats['reentrant_replacements'] += 1
                by_type.pop(t)
                order[:] = [x for x in order if x[2] is not old]
                removed_ever.add(old.uid)
                seq += 1
                order.append((readable, seq, p))
                order.sort(key=lambda x: (x[0], x[1]))
                by_type[t] = p
                removed_ever.discard(p.uid)
                skip_life = True
            elif name == 'addp_fault':
                if 'a' not in events[op[1]] or not enabled:
                    continue
                p = classes[op[1]]()
                p.uid = len(instances)
                p.cls_index = op[1]
                p.act = None
                p.fail_on_add = True
                instances.append(p)
                t = type(p)
                readable = p.priority
                state['fault'] = None
                try:
                    w.add_processor(p, op[2]) if op[2] is not None \
                        else w.add_processor(p)
                    raised = None
                except HarnessError as ex:
                    raised = ex
                res.stats['on_add_faults'] += 1
                if raised is None or raised is not state['fault']:
                    fail(at, 'fault-not-propagated', 'on_add of the added '
                         'processor raised but add_processor did not '
                         'propagate it', repr(state['fault']), repr(raised))
                    break
                # whether the failed addition stays or is rolled back is
                # not stated: the model follows what `processors` lists, and
                # every other view (get_processor, process) must agree
                if t in by_type:
                    old = by_type.pop(t)
                    order[:] = [x for x in order if x[2] is not old]
                    removed_ever.add(old.uid)
                if any(x is p for x in w.processors):
                    prio = op[2] if op[2] is not None else readable
                    seq += 1
                    order.append((prio, seq, p))
                    order.sort(key=lambda x: (x[0], x[1]))
                    by_type[t] = p
                    res.tags['failed_add_stays'].add(True)
                else:
                    removed_ever.add(p.uid)
                    res.tags['failed_add_stays'].add(False)
                skip_life = True
            elif name == 'rmp':
                t = classes[op[1]]
                match = [p for ct, p in by_type.items() if issubclass(ct, t)]
                got = w.remove_processor(t)
                if t in by_type:
                    legal = [by_type[t]]
                else:
                    legal = match
                if (not legal and got is not None) or (
                        legal and not any(got is p for p in legal)):
                    fail(at, 'remove-returned', 'remove_processor returned an '
                         'object other than a matching registered processor '
                         '(exact type first)', [p.uid for p in legal],
                         getattr(got, 'uid', repr(got)))
                    break
                if legal:
                    by_type.pop(type(got))
                    order[:] = [x for x in order if x[2] is not got]
                    removed_ever.add(got.uid)
                    want_life.append(expect_life('remove', got))
            elif name == 'process':
                dt = 1000 + at
                at_start = list(order)
                w.process(dt)
                want_life += [x for x in frame['life']]
                if 'bad' in frame:
                    fail(at, 'remove-returned', 'remove_processor (called from '
                         'inside a frame) returned a non-matching object',
                         frame['bad'][0], frame['bad'][1])
                    break
                changed = frame['changed']
                calls = [(e[1], e[2]) for e in log if e[0] == 'proc'
                         and e[1] not in changed]
                # processors (un)registered during the frame: at most once
                for uid in changed:
                    n = sum(1 for e in log if e[0] == 'proc' and e[1] == uid)
                    if n > 1:
                        fail(at, 'process-calls', f'processor {uid} called '
                             f'{n} times in one frame', '<=1', n)
                        break
                if res.divs:
                    break
                # a processor removed or replaced during the frame is never
                # called again, not even later in that same frame
                for uid, pos in frame['removed_at'].items():
                    res.stats['inframe_removals_checked'] += 1
                    late = [e for e in log[pos:]
                            if e[0] == 'proc' and e[1] == uid]
                    if late:
                        fail(at, 'called-after-removal', f'processor {uid} '
                             'was removed (or replaced) by another processor '
                             'during the frame and was still called '
                             'afterwards', 'never called again', late[:2])
                        break
                if res.divs:
                    break
                if changed:
                    res.stats['dontcare_changed_during_frame'] += len(changed)
                want = [(x[2].uid, dt) for x in at_start
                        if x[2].uid not in changed]
                res.stats['process_calls_checked'] += 1
                res.tags['frame_size'].add(len(order))
                if calls != want:
                    kind = ('process-order'
                            if sorted(calls) == sorted(want)
                            else 'process-calls')
                    fail(at, kind, 'process(dt) did not call every registered '
                         'processor exactly once with that dt in (priority, '
                         'insertion) order', want, calls,
                         priorities=[(x[2].uid, x[0]) for x in order])
                    break
                if len(order) >= 3 and tie_insert:
                    res.nontrivial = True
            elif name == 'enable':
                w.dispatch_enabled = op[1]
        except Exception as ex:
            fail(at, 'operation-raised', f'{name} raised '
                 f'{type(ex).__name__}: {ex}', 'no exception', repr(ex), op=op)
            break

        # lifecycle callbacks (processor on_add/on_remove take no arguments)
        life = [e for e in log if e[0] in ('add', 'remove')]
        bad = [e for e in life if e[2] != () or not e[3]
               or (e[0] == 'add' and e[4] is not True)]
        if bad:
            fail(at, 'lifecycle-call', 'processor lifecycle callback with '
                 'arguments, while disabled, or before world was set', None,
                 [list(map(repr, e)) for e in bad])
            break
        got_life = [(e[0], e[1]) for e in life]
        want_life = [x for x in want_life if x is not None]
        res.stats['lifecycle_checked'] += len(got_life)
        if name == 'enable':
            if op[1] and not enabled:
                flat_ok = True
                pos = 0
                for origin, group in postponed:
                    seg = collections.Counter(got_life[pos:pos + len(group)])
                    if seg != collections.Counter(group):
                        flat_ok = False
                    pos += len(group)
                if not flat_ok or pos != len(got_life):
                    fail(at, 'postponed-release', 'postponed processor '
                         'callbacks not released once each in operation order',
                         postponed, got_life)
                    break
                postponed = []
            elif got_life:
                fail(at, 'unexpected-callback', 'toggle delivered callbacks',
                     [], got_life)
                break
            enabled = op[1]
        elif skip_life:
            pass        # a failed addition: its callbacks are not judged
        elif enabled:
            if collections.Counter(got_life) != collections.Counter(want_life):
                fail(at, 'lifecycle-mismatch', f'{name}: processor on_add/'
                     'on_remove differ from the registration changes',
                     want_life, got_life, op=op)
                break
        else:
            if got_life:
                fail(at, 'callback-while-disabled', 'processor lifecycle '
                     'callback while disabled', [], got_life)
                break
            if want_life:
                postponed.append((at, want_life))

        # read API
        listed = [p.uid for p in w.processors]
        res.stats['queries_checked'] += 1
        if listed != [x[2].uid for x in order]:
            fail(at, 'processors-order', 'processors property differs from '
                 '(priority, insertion) order', [x[2].uid for x in order],
                 listed, priorities=[(x[2].uid, x[0]) for x in order])
            break
        if len(set(map(type, w.processors))) != len(w.processors):
            fail(at, 'duplicate-type', 'two processors of one exact type',
                 None, listed)
            break
        ok = True
        for ti, t in enumerate(classes):
            match = [p for ct, p in by_type.items() if issubclass(ct, t)]
            one = w.get_processor(t)
            res.stats['queries_checked'] += 1
            if not match:
                good = one is None
            elif t in by_type:
                good = one is by_type[t]
            else:
                good = any(one is p for p in match)
            if not good:
                fail(at, 'get_processor', f'get_processor(P{ti})',
                     [p.uid for p in match], getattr(one, 'uid', repr(one)))
                ok = False
                break
        if not ok:
            break
        for p in instances:
            if case.get('equal_all'):
                # handlers that compare equal alias each other in any
                # registry keyed by the handler: is_handler is not judged
                break
            if p.uid not in removed_ever and any(
                    p is x[2] for x in order):
                if desper.event_handler and events[p.cls_index]:
                    if not w.is_handler(p):
                        fail(at, 'registration', f'handler processor {p.uid} '
                             'is registered but not a listener', True, False)
                        ok = False
                        break
            elif events[p.cls_index] and w.is_handler(p):
                fail(at, 'registration', f'removed processor {p.uid} is still '
                     'a listener of the world', False, True)
                ok = False
                break
        if not ok:
            break

    res.stats['processors_reads_in_callbacks'] += len(reads)
    res.sample = {'final_order': [(x[2].uid, x[0]) for x in order],
                  'frames': res.stats['process_calls_checked']}
    return res


def classify(case, div):
    return None
