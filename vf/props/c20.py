"""C20 - Transform setters notify listeners with the value that was stored."""
import random
from fractions import Fraction

from vf import import_desper
from vf.core import Res, HarnessError

ID = 'C20'
LEVEL = 'exploration'
RULE = ('random sequences of assignments (plain and augmented) to position/'
        'rotation/scale of 1-4 Transform2D/Transform3D instances with 0-3 '
        'listeners each (listeners may watch two transforms and any subset of '
        'the three events, and may be value-like: distinct listeners that '
        'compare and hash equal, or define __eq__ without __hash__); rotations are ints/dyadic floats in [-2000,2000] '
        'incl. multiples of 360 and negatives. Oracle after every assignment: '
        'one notification per matching listener of that transform, value == '
        'immediate read-back, 2D rotation read-back in [0,360) and congruent '
        'to the assigned value (exact, Fraction), nothing else notified or '
        'changed; constructor values stored like assigned ones; defaults not '
        'shared. Non-trivial = a 2D rotation outside [0,360) reaching >=1 '
        'listener, or >=2 transforms sharing a listener that is notified.'
        ' Rounds 9-13 added: listeners that evaluate false, that raise once,'
        ' that unsubscribe themselves while notified.')
ANCHORS = [
    'desper/logic/spatial.py::Transform2D.__init__',
    'desper/logic/spatial.py::Transform2D.position',
    'desper/logic/spatial.py::Transform2D.rotation',
    'desper/logic/spatial.py::Transform2D.scale',
    'desper/logic/spatial.py::Transform3D.__init__',
    'desper/logic/spatial.py::Transform3D.position',
    'desper/logic/spatial.py::Transform3D.rotation',
    'desper/logic/spatial.py::Transform3D.scale',
]
MIN_NONTRIVIAL = {'quick': 300, 'thorough': 5000}
MIN_STATS = {'notifications_checked': 1000}
ASSUMPTIONS = ['rotation inputs are dyadic rationals so that % 360 is exact, except '
               'a few values whose residue lies within rounding distance of '
               '360 (judged: in [0, 360) and within 2^-40 of the residue on the '
               'circle)',
               'what a listener reads from the transform *during* the '
               'notification is recorded but not judged (not in the statement)',
               'a listener that assigns a property of the transform that is '
               'notifying it: judged over the whole operation (once per '
               'assignment and listener, with the stored values, in any '
               'order), not notification by notification']

PROPS = ('position', 'rotation', 'scale')
EVENTS = {'position': 'on_position_change', 'rotation': 'on_rotation_change',
          'scale': 'on_scale_change'}


def _rot(rng):
    k = rng.random()
    if k < 0.01:
        # not a number / infinite: nothing to reduce, the result is NaN
        return rng.choice(['nan', 'inf', '-inf'])
    if k < 0.04:
        # tiny negative values (and values just below a multiple of 360):
        # the exact residue lies within rounding distance of 360
        return rng.choice([-2.0 ** -60, -2.0 ** -30, -1e-20, -5e-324,
                           360 - 2.0 ** -44, -2.0 ** -45, 720 - 2.0 ** -43])
    if k < 0.2:
        return rng.choice([0, 360, -360, 720, -720, 1080, 359, 361, -1, 1])
    if k < 0.5:
        return rng.randint(-2000, 2000)
    if k < 0.6:
        return float(rng.randint(-5, 5) * 360)
    return rng.randint(-2000 * 8, 2000 * 8) / 8.0


def _num(rng):
    return rng.choice([0, 1, -1, 2, 0.5, -2.5, 10, 100, 3.25, 7])


def _vec(rng, dim):
    return [rng.choice('VVTTL'), [_num(rng) for _ in range(dim)]]


def _value(rng, dim, prop):
    if prop == 'rotation' and dim == 2:
        return _rot(rng)
    return _vec(rng, dim)


def gen_one(rng, tier):
    nt = rng.randint(1, 4)
    transforms = []
    for _ in range(nt):
        dim = rng.choice([2, 2, 3])
        ctor = {}
        for prop in PROPS:
            if rng.random() < 0.4:
                ctor[prop] = _value(rng, dim, prop)
                if isinstance(ctor[prop], list) and ctor[prop][0] == 'L':
                    # lists are only assigned, never given at construction
                    # (the constructor is documented for tuples)
                    ctor[prop][0] = 'T'
        transforms.append({'dim': dim, 'ctor': ctor})
    listeners = []
    for _ in range(rng.randint(0, 5)):
        events = [p for p in PROPS if rng.random() < 0.6]
        if not events:
            events = [rng.choice(PROPS)]
        on = sorted(set(rng.sample(range(nt), rng.randint(1, min(2, nt)))))
        listeners.append({'events': events, 'on': on})
    ops = []
    for _ in range(rng.randint(1, 12 if tier == 'quick' else 30)):
        t = rng.randrange(nt)
        prop = rng.choice(PROPS)
        dim = transforms[t]['dim']
        aug = (prop == 'rotation' and dim == 2 and rng.random() < 0.25)
        ops.append([t, prop, _value(rng, dim, prop), aug])
    # a listener may, when notified, assign the same property of ANOTHER
    # transform (a parent moving its child): [listener, transform, value]
    chains = []
    if nt >= 2 and listeners and rng.random() < 0.3:
        li = rng.randrange(len(listeners))
        others = [t for t in range(nt) if t not in listeners[li]['on']]
        if others:
            target = rng.choice(others)
            prop = rng.choice(listeners[li]['events'])
            chains.append([li, target, prop,
                           _value(rng, transforms[target]['dim'], prop)])
    if listeners and not chains and rng.random() < 0.15:
        # ... or assign a property of the SAME transform it was notified by
        # (a clamping listener): [listener, transform, prop it reacts to,
        # value, prop it assigns]
        li = rng.randrange(len(listeners))
        t = rng.choice(listeners[li]['on'])
        prop = rng.choice(listeners[li]['events'])
        prop2 = rng.choice(PROPS)
        chains.append([li, t, prop,
                       _value(rng, transforms[t]['dim'], prop2), prop2])
    raiser = None
    if listeners and rng.random() < 0.2:
        # one listener raises once, during one of the first assignments
        raiser = [rng.randrange(len(listeners)),
                  rng.randrange(max(1, len(ops) // 2))]
    quitter = None
    if listeners and not chains and raiser is None and rng.random() < 0.2:
        # one listener unsubscribes itself while it is being notified
        quitter = [rng.randrange(len(listeners)),
                   rng.randrange(max(1, len(ops) // 2))]
    return {'transforms': transforms, 'listeners': listeners, 'ops': ops,
            'chains': chains, 'raiser': raiser, 'quitter': quitter,
            # value-like listeners: distinct listeners that compare and hash
            # equal ('unhashable': __eq__ without __hash__)
            # ('falsy', 'empty': listeners that evaluate false)
            'eq': rng.choice([None] * 7 + ['equal', 'equal', 'unhashable',
                                           'falsy', 'empty'])}


def gen_cases(tier, seed):
    n = 5000 if tier == 'quick' else 16 * 10000
    for i in range(n):
        yield gen_one(random.Random(f'C20/{seed}/{tier}/{i}'), tier)


def _mk(desper, dim, spec):
    if isinstance(spec, str):
        return float(spec)
    if isinstance(spec, list):
        kind, comps = spec
        if kind == 'V':
            return (desper.math.Vec2 if dim == 2 else desper.math.Vec3)(*comps)
        if kind == 'L':
            return list(comps)
        return tuple(comps)
    return spec


def _exact(x):
    return Fraction(x)


def _eq(a, b):
    """Equality that also holds between two NaN read-backs."""
    return bool(a == b) or (isinstance(a, float) and isinstance(b, float)
                            and a != a and b != b)


def run_case(case):
    desper = import_desper()
    import desper.math  # noqa: F401
    res = Res()
    log = []

    armed = [None, None]
    quitting = [None]
    gone = set()        # (listener, id(transform)) pairs that unsubscribed

    def make_listener(uid, events):
        ns = {}
        for prop in events:
            def cb(self, value, _prop=prop):
                log.append((self.uid, _prop, value))
                if quitting[0] == self.uid:
                    # (once) a one-shot listener: it unsubscribes itself
                    # from the transform that is notifying it
                    quitting[0] = None
                    current[0].remove_handler(self)
                    gone.add((self.uid, id(current[0])))
                if armed[0] == self.uid:
                    # (once) a listener fails; the program catches that
                    armed[0] = None
                    armed[1] = HarnessError('a listener raised')
                    raise armed[1]
                for chain in case.get('chains', []):
                    if len(chain) == 5:
                        li, target, cprop, raw, prop2 = chain
                        if li == self.uid and cprop == _prop \
                                and not same_busy[0] \
                                and transforms[target] is current[0]:
                            # assignment on the transform that is notifying
                            same_busy[0] = True
                            t2 = transforms[target]
                            v2 = _mk(desper, case['transforms'][target]['dim'],
                                     raw)
                            if isinstance(v2, list):
                                v2 = tuple(v2)
                            setattr(t2, prop2, v2)
                            same.append((target, prop2, getattr(t2, prop2)))
                            same_busy[0] = False
                        continue
                    li, target, cprop, raw = chain
                    if li == self.uid and cprop == _prop:
                        # nested assignment on another transform; its own
                        # notifications are judged separately
                        t2 = transforms[target]
                        v2 = _mk(desper, case['transforms'][target]['dim'],
                                 raw)
                        mark = len(log)
                        setattr(t2, cprop, v2)
                        inner = log[mark:]
                        del log[mark:]
                        nested.append((target, cprop, getattr(t2, cprop),
                                       inner))
            ns[EVENTS[prop]] = cb
        if case.get('eq') == 'falsy':
            ns['__bool__'] = lambda self: False
            res.tags['value_like_listeners'].add('falsy')
        elif case.get('eq') == 'empty':
            ns['__len__'] = lambda self: 0
            res.tags['value_like_listeners'].add('falsy')
        elif case.get('eq'):
            ns['__eq__'] = lambda self, other: hasattr(other, 'uid')
            ns['__hash__'] = (lambda self: 5) if case['eq'] == 'equal' \
                else None
            res.tags['value_like_listeners'].add(case['eq'])
        cls = desper.event_handler(*[EVENTS[p] for p in events])(
            type(f'L{uid}', (), ns))
        obj = cls()
        obj.uid = uid
        return obj

    classes = {2: desper.Transform2D, 3: desper.Transform3D}
    transforms = []
    nested = []         # (transform, prop, read-back, notifications)
    same = []           # assignments made on the notifying transform itself
    same_busy = [False]
    current = [None]    # transform whose assignment is being judged
    for spec in case['transforms']:
        dim = spec['dim']
        kwargs = {p: _mk(desper, dim, v) for p, v in spec['ctor'].items()}
        t = classes[dim](**kwargs)
        transforms.append(t)
        # constructor values are stored like assigned ones
        twin = classes[dim]()
        for prop, value in kwargs.items():
            setattr(twin, prop, value)
        for prop in PROPS:
            res.stats['ctor_comparisons'] += 1
            a, b = getattr(t, prop), getattr(twin, prop)
            if not _eq(a, b):
                res.div(-1, 'ctor-differs-from-assignment',
                        f'{classes[dim].__name__}({prop}=...) reads back '
                        'differently from the same value assigned',
                        expected=b, observed=a, prop=prop)
        # defaults are not shared between instances
        other = classes[dim]()
        before = [getattr(other, p) for p in PROPS]
        probe = classes[dim]()
        for prop in PROPS:
            setattr(probe, prop, _mk(desper, dim, ['V', [9] * dim])
                    if not (prop == 'rotation' and dim == 2) else 45)
        after = [getattr(other, p) for p in PROPS]
        if before != after:
            res.div(-1, 'default-shared', 'assignment on one instance visible '
                    'through another default-constructed one',
                    expected=before, observed=after)

    listeners = []
    for uid, spec in enumerate(case['listeners']):
        obj = make_listener(uid, spec['events'])
        listeners.append(obj)
        for t in spec['on']:
            transforms[t].add_handler(obj)
            if (uid + t + len(case['ops'])) % 4 == 0:
                # registering a listener twice does not duplicate anything
                transforms[t].add_handler(obj)
                res.tags['listener_registered_twice'].add(True)

    nontrivial = False
    for at, (ti, prop, raw, aug) in enumerate(case['ops']):
        t = transforms[ti]
        dim = case['transforms'][ti]['dim']
        value = _mk(desper, dim, raw)
        snapshot = [[getattr(x, p) for p in PROPS] for x in transforms]
        del log[:]
        del nested[:]
        del same[:]
        current[0] = t
        raiser = case.get('raiser')
        if raiser and raiser[1] == at:
            armed[0] = raiser[0]
        quitter = case.get('quitter')
        gone_before = set(gone)
        if quitter and quitter[1] == at:
            quitting[0] = quitter[0]
        try:
            if aug:
                assigned = t.rotation + value
                t.rotation += value
            else:
                assigned = value
                setattr(t, prop, value)
        except HarnessError as ex:
            if ex is not armed[1]:
                raise
            # the notification round was cut short by the failing listener:
            # only the stored value is judged for this assignment, the
            # following ones are judged as usual
            armed[1] = None
            res.stats['assignments_interrupted_by_a_raising_listener'] += 1
            clamped = same or any(len(c) == 5 and c[1] == ti
                                  for c in case.get('chains', []))
            if not (prop == 'rotation' and dim == 2) and not clamped \
                    and not _eq(getattr(t, prop), assigned):
                res.div(at, 'value-not-stored', f'{prop} after an assignment '
                        'whose notification a listener interrupted',
                        repr(assigned), repr(getattr(t, prop)))
                break
            continue
        finally:
            armed[0] = None
            quitting[0] = None
        back = getattr(t, prop)
        res.stats['assignments'] += 1
        res.tags['prop_dim'].add(f'{prop}/{dim}')

        if same:
            # A listener assigned a property of the notifying transform.
            # Whether the inner notifications run inside the outer ones or
            # after them is not stated: over the whole operation every
            # listener of a property is told once per assignment to it, with
            # the values those assignments stored (any order), and the
            # last assignment decides what the property reads.
            res.stats['same_transform_assignments_checked'] += len(same)
            stored = {prop: [back if not same or same[0][1] != prop
                             else None]}
            per_prop = {prop: [assigned if not (prop == 'rotation'
                                                and dim == 2) else None]}
            for _, p2, back2 in same:
                per_prop.setdefault(p2, []).append(back2)
            good = True
            for p2, values in per_prop.items():
                for uid, spec in enumerate(case['listeners']):
                    if ti not in spec['on'] or p2 not in spec['events']:
                        continue
                    got_v = [v for u, p, v in log if u == uid and p == p2]
                    if len(got_v) != len(values):
                        res.div(at, 'same-transform-notification-count',
                                f'listener {uid} of {p2}: number of '
                                'notifications over an assignment during '
                                'which a listener assigned the same '
                                'transform again', len(values), len(got_v),
                                values=[repr(v) for v in got_v])
                        good = False
                        break
                    known = [v for v in values if v is not None]
                    if any(not any(_eq(g, k) for g in got_v) for k in known):
                        res.div(at, 'same-transform-notification-value',
                                f'listener {uid} of {p2} was not told the '
                                'values the assignments stored',
                                [repr(v) for v in known],
                                [repr(v) for v in got_v])
                        good = False
                        break
                if not good:
                    break
            for p2 in per_prop:
                if p2 != prop or same[-1][1] == prop:
                    last = [b for _, q, b in same if q == p2]
                    if last and not _eq(getattr(t, p2), last[-1]):
                        res.div(at, 'value-not-stored', f'{p2} after nested '
                                'assignments on the same transform',
                                repr(last[-1]), repr(getattr(t, p2)))
                        good = False
            extra = [e for e in log if e[1] not in per_prop]
            if good and extra:
                res.div(at, 'other-event-notified', 'an event of a property '
                        'nobody assigned was notified', None,
                        [list(map(repr, e)) for e in extra[:3]])
            if res.divs:
                break
            nontrivial = True
            continue
        # what was stored
        if prop == 'rotation' and dim == 2:
            if assigned != assigned or assigned in (float('inf'),
                                                    float('-inf')):
                res.stats['non_finite_rotations'] += 1
                if back == back:
                    res.div(at, 'rotation-not-reduced', 'a non-finite '
                            'rotation has no residue modulo 360: the '
                            'property must read NaN, not a made-up angle',
                            'nan', back)
                    break
                bad = [e for e in log if e[1] == 'rotation'
                       and e[2] == e[2]]
                if bad:
                    res.div(at, 'notified-value-not-stored-value',
                            'listeners were told a number while the '
                            'property reads NaN', 'nan', repr(bad[0][2]))
                    break
                continue
            try:
                inside = 0 <= back < 360
                congruent = ((_exact(assigned) - _exact(back)) / 360
                             ).denominator == 1
                residue = _exact(assigned) % 360
                if not congruent and float(residue) != residue:
                    # the exact residue is no float: nearest on the circle
                    res.stats['rotation_residues_not_representable'] += 1
                    diff = abs(_exact(back) - residue)
                    congruent = min(diff, 360 - diff) <= Fraction(1, 2 ** 40)
            except (TypeError, ValueError):
                inside = congruent = False
            if not (inside and congruent):
                res.div(at, 'rotation-not-reduced',
                        '2D rotation read-back is not the assigned value '
                        'reduced modulo 360', expected=f'{assigned} mod 360',
                        observed=back)
            outside = not (0 <= assigned < 360)
        else:
            outside = False
            stored = back == assigned
            if isinstance(assigned, list):
                # whether a list is stored as such or as an equal vector is
                # not stated: compare component-wise
                try:
                    stored = list(back) == assigned
                except TypeError:
                    stored = False
            if not stored:
                res.div(at, 'value-not-stored', f'{prop} read-back differs '
                        'from the assigned value', expected=assigned,
                        observed=back)

        # who was told what
        expected_listeners = collections_counter(
            uid for uid, spec in enumerate(case['listeners'])
            if ti in spec['on'] and prop in spec['events']
            and (uid, id(t)) not in gone_before)
        got = collections_counter(uid for uid, p, v in log if p == prop)
        for uid, p, v in log:
            res.stats['notifications_checked'] += 1
            if p != prop:
                res.div(at, 'other-event-notified', f'listener {uid} got '
                        f'{EVENTS[p]} on an assignment to {prop}',
                        expected=None, observed=[uid, p, v])
            elif not _eq(v, back):
                res.div(at, 'notified-value-not-stored-value',
                        f'listener {uid} was told a value that is not what '
                        f'the {prop} property reads right afterwards',
                        expected=back, observed=v, assigned=assigned)
        if got != expected_listeners:
            res.div(at, 'notification-count', 'listeners notified '
                    'differently from exactly-once-each',
                    expected=dict(expected_listeners), observed=dict(got))
        if expected_listeners:
            if outside:
                nontrivial = True
            if any(len(case['listeners'][uid]['on']) > 1
                   for uid in expected_listeners):
                nontrivial = True

        # assignments made from inside a notification (re-entrancy)
        touched = {(ti, prop)}
        for target, cprop, back2, inner in nested:
            touched.add((target, cprop))
            res.stats['nested_assignments_checked'] += 1
            want2 = collections_counter(
                uid for uid, spec in enumerate(case['listeners'])
                if target in spec['on'] and cprop in spec['events'])
            got2 = collections_counter(u for u, p, v in inner if p == cprop)
            if got2 != want2 or any(not _eq(v, back2) or p != cprop
                                    for u, p, v in inner):
                res.div(at, 'nested-notification', 'an assignment made from '
                        'inside a notification (on another transform) did '
                        'not notify its listeners exactly once with the '
                        'stored value', expected=[dict(want2), repr(back2)],
                        observed=[list(map(repr, e)) for e in inner])
                break
        if res.divs:
            break
        # nothing else changed
        for xi, x in enumerate(transforms):
            for pi, p in enumerate(PROPS):
                if (xi, p) in touched:
                    continue
                res.stats['unchanged_comparisons'] += 1
                now = getattr(x, p)
                if not _eq(now, snapshot[xi][pi]):
                    res.div(at, 'unrelated-property-changed',
                            f'transform {xi}.{p} changed by an assignment to '
                            f'transform {ti}.{prop}',
                            expected=snapshot[xi][pi], observed=now)
        if res.divs:
            break

    res.nontrivial = nontrivial
    res.sample = {'last_log': [list(map(repr, e)) for e in log][:6]}
    return res


def collections_counter(it):
    import collections
    return collections.Counter(it)


def classify(case, div):
    if div['kind'] in ('notified-value-not-stored-value',):
        return 'rotation-event-raw-value'
    return None
