"""C12 - A handle loads its resource at most once between clears."""
import math
import random

from vf import import_desper
from vf.core import Res, HarnessError

ID = 'C12'
LEVEL = 'exploration'
RULE = ('1-6 counting handles stored in a ResourceMap at plain and nested '
        'paths (identifier and non-identifier names), loaded values drawn '
        'from None, 0, False, "", [], {}, 0.0, NaN and objects with hostile '
        '__eq__ (always False / raises) and __bool__ (raises), fresh object '
        'per load; access sequences mixing h(), m["a/b"], m["a"]["b"], '
        'static-map attribute and item access, get(p)(), SimpleLoop.switch/'
        'Loop.switch with every clear_current/clear_next combination for '
        'world handles, interleaved with h.clear() and with loads that fail '
        'once (exception caught, handle cleared, program carries on). Oracle per handle: the '
        'load counter moves exactly when `cached` (read before every access) '
        'was False, every access of an epoch returns the identical object '
        'load() returned, after clear() the next access loads afresh. '
        'Non-trivial = >=2 distinct access paths to one handle within an '
        'epoch with a falsy or hostile value, or >=2 epochs.'
        ' Rounds 11-13 added: paths with leading underscores; `cached` read'
        ' from inside load().')
ANCHORS = [
    'desper/model/tree.py::Handle.__call__',
    'desper/model/tree.py::Handle.clear',
    'desper/model/tree.py::Handle.cached',
    'desper/model/tree.py::StaticResourceMap.__getattribute__',
    'desper/model/tree.py::ResourceMap.__getitem__',
    'desper/loop.py::Loop.switch',
    'desper/loop.py::SimpleLoop.switch',
]
MIN_NONTRIVIAL = {'quick': 500, 'thorough': 8000}
MIN_STATS = {'accesses_checked': 20000}
ASSUMPTIONS = ['none beyond the generator bounds']

PATHS = ['a', 'b', 'c/a', 'c/b', 'c/d/a', 'e/a/b/c', 'class', 'x y', '1a',
         'c/x-y', 'f/g', '__default', 'c/__init__', '_p']
VALUES = ['none', 'zero', 'false', 'empty_str', 'empty_list', 'empty_dict',
          'zero_float', 'nan', 'eq_false', 'eq_raises', 'bool_raises', 'obj',
          'world', 'eq_true', 'ne_weird']
FALSY = set(VALUES) - {'obj', 'world'}
ACCESS = ['call', 'item', 'chain', 'get_call', 'static_attr', 'static_item',
          'cached', 'clear', 'switch', 'pstatic_attr', 'pstatic_item']


def gen_one(rng, tier):
    big = tier == 'thorough' and rng.random() < 0.5
    paths = rng.sample(PATHS, rng.randint(1, 6))
    handles = [{'path': p, 'value': rng.choice(VALUES)} for p in paths]
    if rng.random() < 0.5:
        handles[0]['value'] = 'world'
    # the load of a handle may itself read an earlier handle (as a world
    # file resolving $res{} does)
    for i in range(1, len(handles)):
        if rng.random() < 0.25:
            handles[i]['dep'] = rng.randrange(i)
    ops = []
    for _ in range(rng.randint(2, 60 if big else 30)):
        kind = rng.choices(ACCESS, [20, 16, 12, 8, 8, 6, 4, 12, 10, 8, 6])[0]
        op = [kind, rng.randrange(len(handles))]
        if kind == 'switch':
            op += [rng.random() < 0.5, rng.random() < 0.5,
                   rng.random() < 0.5]
        ops.append(op)
    if rng.random() < 0.25:
        # a load that fails once (the program catches the exception, clears
        # the handle and carries on)
        for _ in range(rng.randint(1, 2)):
            ops.insert(rng.randrange(len(ops) + 1),
                       ['fail_load', rng.randrange(len(handles))])
    return {'handles': handles, 'ops': ops}


def gen_scale(rng):
    """A few hundred handles resident at the same time."""
    n = rng.choice([150, 300])
    handles = [{'path': f'bank{k // 20}/h{k}', 'value': rng.choice(VALUES[:12])}
               for k in range(n)]
    ops = [[rng.choice(['call', 'item', 'chain']), k] for k in range(n)]
    for _ in range(200):
        ops.append([rng.choice(['call', 'item', 'get_call', 'cached',
                                'pstatic_item']), rng.randrange(n)])
    for k in rng.sample(range(n), 20):
        ops += [['clear', k], ['item', k], ['call', k]]
    return {'handles': handles, 'ops': ops}


def gen_cases(tier, seed):
    for i in range(2 if tier == 'quick' else 32):
        yield gen_scale(random.Random(f'C12/scale/{seed}/{tier}/{i}'))
    n = 4000 if tier == 'quick' else 16 * 10000
    for i in range(n):
        yield gen_one(random.Random(f'C12/{seed}/{tier}/{i}'), tier)


def make_factory(desper, kind):
    class EqFalse:
        def __eq__(self, other):
            return False
        __hash__ = object.__hash__

    class EqRaises:
        def __eq__(self, other):
            raise RuntimeError('__eq__ must not be used on resources')
        __hash__ = object.__hash__

    class EqTrue:
        """Equal to everything (like unittest.mock.ANY)."""
        def __eq__(self, other):
            return True

        def __ne__(self, other):
            return False
        __hash__ = object.__hash__

    class NeWeird:
        def __eq__(self, other):
            return NotImplemented

        def __ne__(self, other):
            return 'maybe'
        __hash__ = object.__hash__

    class BoolRaises:
        def __bool__(self):
            raise RuntimeError('__bool__ must not be used on resources')

    table = {
        'none': lambda: None, 'zero': lambda: 0, 'false': lambda: False,
        'empty_str': lambda: '', 'empty_list': list, 'empty_dict': dict,
        'zero_float': lambda: 0.0, 'nan': lambda: float('nan'),
        'eq_false': EqFalse, 'eq_raises': EqRaises,
        'bool_raises': BoolRaises, 'obj': object, 'world': desper.World,
        'eq_true': EqTrue, 'ne_weird': NeWeird,
    }
    return table[kind]


def run_case(case):
    desper = import_desper()
    res = Res()

    class CH(desper.Handle):
        def __init__(self, uid, factory):
            self.uid = uid
            self.loads = 0
            self.values = []
            self.factory = factory

        def load(self):
            self.loads += 1
            # load() runs only when nothing is held: `cached`, read from
            # here (a plain attribute read, no access to the resource),
            # still says that the next access would load
            cached_inside.append((self.uid, self.cached))
            if self.fail_next:
                self.fail_next = False
                self.fault = HarnessError(f'load of handle {self.uid} failed')
                raise self.fault
            if self.dep is not None:
                nested.append(self.dep)
                hs[self.dep]()
            v = self.factory()
            self.values.append(v)
            return v

    root = desper.ResourceMap()
    hs = []
    nested = []         # handles read from inside another handle's load
    cached_inside = []  # (uid, `cached` as read from inside its own load)
    for i, spec in enumerate(case['handles']):
        h = CH(i, make_factory(desper, spec['value']))
        h.dep = spec.get('dep')
        h.fail_next = False
        h.fault = None
        root[spec['path']] = h
        hs.append(h)
    loaded = [False] * len(hs)      # model: is the handle cached
    epochs = [0] * len(hs)
    paths_in_epoch = [set() for _ in hs]
    loops = {'simple': desper.SimpleLoop(), 'current': None}
    nontrivial = False

    def access(kind, i):
        path = case['handles'][i]['path']
        names = path.split('/')
        h = hs[i]
        if kind == 'call':
            return h()
        if kind == 'item':
            return root[path]
        if kind == 'chain':
            v = root
            for n in names:
                v = v[n]
            return v
        if kind == 'get_call':
            return root.get(path)()
        if kind.startswith('p'):
            # one snapshot taken once and used across clears
            if 'snapshot' not in loops:
                loops['snapshot'] = root.get_static_map()
            v = loops['snapshot']
            if kind == 'pstatic_attr' and all(n.isidentifier()
                                              for n in names):
                for n in names:
                    v = getattr(v, n)
            else:
                for n in names:
                    v = v[n]
            return v
        if kind == 'static_attr' and all(n.isidentifier() for n in names):
            v = root.get_static_map()
            for n in names:
                v = getattr(v, n)
            return v
        if kind in ('static_item', 'static_attr'):
            v = root.get_static_map()
            for n in names:
                v = v[n]
            return v
        raise ValueError(kind)

    def absorb_nested(at, i, others):
        """Handles read from inside the load of handle i: an ordinary
        access of theirs."""
        for j in list(nested):
            res.tags['nested_access_during_load'].add(True)
            want_j = others[j] + (0 if loaded[j] else 1)
            if hs[j].loads != want_j:
                res.div(at, 'load-count', f'handle {j} (read from inside the '
                        f'load of handle {i}) loaded {hs[j].loads - others[j]}'
                        f' time(s) with cached={loaded[j]}',
                        want_j - others[j], hs[j].loads - others[j])
                return False
            if not loaded[j]:
                epochs[j] += 1
                paths_in_epoch[j] = set()
            loaded[j] = True
            others[j] = hs[j].loads
        del nested[:]
        return True

    def check_access(at, kind, i, do):
        """One access to handle i through ``do``; judged by the model."""
        nonlocal nontrivial
        h = hs[i]
        before = h.loads
        del nested[:]
        others = [x.loads for x in hs]
        try:
            cached = h.cached
        except Exception as ex:
            res.div(at, 'cached-raised', 'cached raised', 'bool', repr(ex))
            return False
        if bool(cached) is not loaded[i]:
            res.div(at, 'cached-mismatch', f'handle {i}.cached before a '
                    f'{kind} access', loaded[i], cached)
            return False
        try:
            got = do()
        except Exception as ex:
            res.div(at, 'access-raised', f'{kind} access of handle {i} '
                    f'({case["handles"][i]["value"]}) raised '
                    f'{type(ex).__name__}: {ex}', 'the resource', repr(ex))
            return False
        res.stats['accesses_checked'] += 1
        want_loads = before + (0 if loaded[i] else 1)
        if h.loads != want_loads:
            res.div(at, 'load-count', f'{kind} access of handle {i} '
                    f'({case["handles"][i]["value"]}): load() ran '
                    f'{h.loads - before} time(s) with cached={loaded[i]}',
                    want_loads - before, h.loads - before)
            return False
        if not h.values or got is not h.values[-1]:
            res.div(at, 'different-object', f'{kind} access of handle {i} did '
                    'not return the identical object load() produced for this '
                    'epoch', repr(h.values[-1:]), repr(got))
            return False
        if not absorb_nested(at, i, others):
            return False
        if not loaded[i]:
            epochs[i] += 1
            paths_in_epoch[i] = set()
        loaded[i] = True
        paths_in_epoch[i].add(kind)
        try:
            after = bool(h.cached)
        except Exception as ex:
            after = repr(ex)
        if after is not True:
            res.div(at, 'cached-mismatch', f'handle {i}.cached after an '
                    f'access ({case["handles"][i]["value"]})', True, after)
            return False
        if (len(paths_in_epoch[i]) >= 2
                and case['handles'][i]['value'] in FALSY) or epochs[i] >= 2:
            nontrivial = True
        return True

    def do_clear(i):
        hs[i].clear()
        loaded[i] = False

    for at, op in enumerate(case['ops']):
        kind, i = op[0], op[1]
        res.tags['access_kind'].add(kind)
        if kind == 'cached':
            res.stats['accesses_checked'] += 1
            if bool(hs[i].cached) is not loaded[i]:
                res.div(at, 'cached-mismatch', f'handle {i}.cached',
                        loaded[i], hs[i].cached)
                break
        elif kind == 'fail_load':
            if loaded[i]:
                continue            # nothing would be loaded
            h = hs[i]
            h.fail_next = True
            before = h.loads
            try:
                h()
                outcome = 'returned'
            except HarnessError as ex:
                outcome = 'raised' if ex is h.fault else f'other {ex!r}'
            except Exception as ex:
                outcome = f'other {type(ex).__name__}: {ex}'
            res.stats['failed_loads'] += 1
            if outcome != 'raised' or h.loads != before + 1:
                res.div(at, 'failed-load', f'handle {i}: a load() that raises '
                        'must run once and its exception reach the caller',
                        ['raised', 1], [outcome, h.loads - before])
                break
            # what `cached` says now and whether a further access would
            # retry is not stated; after clear() the next access loads afresh
            do_clear(i)
            if bool(h.cached) is not False:
                res.div(at, 'cached-mismatch', f'handle {i}.cached after a '
                        'failed load and clear()', False, h.cached)
                break
        elif kind == 'clear':
            do_clear(i)
            if bool(hs[i].cached) is not False:
                res.div(at, 'cached-mismatch', f'handle {i}.cached after '
                        'clear()', False, hs[i].cached)
                break
        elif kind == 'switch':
            if case['handles'][i]['value'] != 'world':
                continue
            base, cc, cn = op[2], op[3], op[4]
            loop = loops['simple']
            cur = loops['current']
            # model of Loop.switch: clears first, then accesses the target
            before = [h.loads for h in hs]
            was_loaded = list(loaded)
            del nested[:]
            if cc and cur is not None:
                if cur == i and loaded[i] and hs[i].values \
                        and hs[i].values[-1] is not loop.current_world:
                    # the handle of the world being left already holds
                    # ANOTHER world (it was emptied and loaded again
                    # meanwhile): that one is entered, nothing is cleared
                    res.stats['current_handle_already_reloaded'] += 1
                else:
                    loaded[cur] = False
            if cn:
                loaded[i] = False
            expect_load = 0 if loaded[i] else 1
            try:
                if base:
                    desper.Loop.switch(loop, hs[i], cc, cn)
                else:
                    loop.switch(hs[i], cc, cn)
            except Exception as ex:
                res.div(at, 'access-raised', f'switch raised '
                        f'{type(ex).__name__}: {ex}', 'no exception',
                        repr(ex))
                break
            res.stats['accesses_checked'] += 1
            res.stats['switches_checked'] += 1
            if hs[i].loads - before[i] != expect_load:
                res.div(at, 'load-count', f'switch(clear_current={cc}, '
                        f'clear_next={cn}) loaded the target '
                        f'{hs[i].loads - before[i]} time(s)', expect_load,
                        hs[i].loads - before[i], was_cached=was_loaded[i])
                break
            if cc and cur is not None and cur != i and cur in nested:
                # the target's load read the handle that is being left and
                # cleared: whether it is emptied before or after that read
                # is not stated (0 or 1 load, cached either way)
                n = hs[cur].loads - before[cur]
                res.stats['dontcare_left_handle_read_by_target_load'] += 1
                if n not in (0, 1):
                    res.div(at, 'load-count', f'switch loaded the handle '
                            f'being left {n} times', '0 or 1', n)
                    break
                while cur in nested:
                    nested.remove(cur)
                loaded[cur] = bool(hs[cur].cached)
                if n:
                    epochs[cur] += 1
                    paths_in_epoch[cur] = set()
                before[cur] = hs[cur].loads
            if not absorb_nested(at, i, before):
                break
            for j, h in enumerate(hs):
                if j != i and h.loads != before[j]:
                    res.div(at, 'load-count', f'switch loaded an unrelated '
                            f'handle {j}', 0, h.loads - before[j])
                    break
            if res.divs:
                break
            if expect_load:
                epochs[i] += 1
                paths_in_epoch[i] = set()
            loaded[i] = True
            paths_in_epoch[i].add('switch')
            if loop.current_world is not hs[i].values[-1]:
                res.div(at, 'different-object', 'current_world after switch '
                        'is not the object the handle loaded',
                        repr(hs[i].values[-1]), repr(loop.current_world))
                break
            loops['current'] = i
            if epochs[i] >= 2:
                nontrivial = True
            # consistency of every cached flag afterwards
            for j, h in enumerate(hs):
                if h.cached != loaded[j]:
                    res.div(at, 'cached-mismatch', f'handle {j}.cached after '
                            'switch', loaded[j], h.cached)
                    break
            if res.divs:
                break
        else:
            if not check_access(at, kind, i, lambda: access(kind, i)):
                break
    res.stats['cached_reads_inside_load'] += len(cached_inside)
    wrong = [uid for uid, flag in cached_inside if flag is not False]
    if wrong and not res.divs:
        res.div(len(case['ops']), 'cached-inside-load', 'while the load of a '
                'handle runs nothing is held yet: `cached`, read from inside '
                'that load, must still say that the next access will load',
                False, {'handles': wrong[:5]})
    res.nontrivial = nontrivial
    res.sample = {'loads': [h.loads for h in hs], 'epochs': epochs}
    return res


def classify(case, div):
    return None
