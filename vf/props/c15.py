"""C15 - A loaded world contains exactly what its description says."""
import json
import os
import random
import shutil
import tempfile

from vf import import_desper
from vf.core import Res

ID = 'C15'
LEVEL = 'exploration'
RULE = ('generated world descriptions (0-4 processors of distinct types, 0-6 '
        'entities with optional ids - strings, ints>=1000, falsy values or the small ints the automatic generator uses - and 0-4 '
        'components of distinct types, recorder classes from the importable '
        'module vf_fixtures incl. the nested vf_fixtures.sub.Klass.Inner); '
        'arguments are arbitrary JSON values (nested lists/dicts, numbers, '
        'null, booleans, strings), strings that merely contain a marker not '
        'at the start, marker-shaped strings nested inside lists (must pass '
        'through) and real references ${dotted.name}, $res{a.b}, '
        '$handle{a.b} into a generated resource tree (depth 1-4) at top '
        'level of args/kwargs. Entry points: populate_world_from_dict through '
        'a bare WorldHandle (types as classes, no references) and '
        'WorldFromFileHandle on a JSON file in a temp dir, the handle stored '
        'in the tree under a plain or a composite key. Oracle: independent '
        'interpretation of the description: processors (defaults first for '
        'file handles) in (priority, insertion) order, entities/ids/'
        'components, constructor arguments after substitution (identity for '
        'reference targets, equality+type for JSON), dispatching disabled on '
        'return, after enabling on_add once then on_world_load(handle, world) '
        'once per handler component. Non-trivial = >=2 entities, references '
        'of >=2 kinds and >=1 non-reference string containing "$".'
        ' Rounds 9-13 added: paths bound to other handles or the world'
        ' handle moved to another tree between two loads; one-shot iterables'
        ' in dictionary descriptions; free-text resource names.'
        ' Round 14 added: descriptions populated into a world already in'
        ' use.')
ANCHORS = [
    'desper/model/world.py::WorldHandle.load',
    'desper/model/world.py::populate_world_from_dict',
    'desper/model/world.py::WorldFromFileTransformer.__call__',
    'desper/model/world.py::WorldFromFileTransformer._apply_transformers',
    'desper/model/world.py::object_from_string',
    'desper/model/world.py::type_dict_transformer',
    'desper/model/world.py::object_dict_transformer',
    'desper/model/world.py::resource_dict_transformer',
    'desper/model/world.py::default_processors_transformer',
]
MIN_NONTRIVIAL = {'quick': 200, 'thorough': 2000}
MIN_STATS = {'constructor_calls_checked': 2000,
             'references_substituted': 500}
ASSUMPTIONS = [
    'not generated: strings that begin with a marker but have trailing text; '
    'references resolving to strings that look like markers; two components '
    'of one type in an entity; duplicate entity ids',
    'explicit ids are strings, ints >= 1000, ints <= 0 (falsy ones '
    'included) or the small numbers 1, 2, 3, 1.0, 2.0 that the automatic generator hands to '
    'the id-less entities of the same description',
]

OBJECTS = ['vf_fixtures.OBJ_A', 'vf_fixtures.OBJ_B', 'vf_fixtures.NUMBER',
           'vf_fixtures.TEXT', 'vf_fixtures.sub.OBJ_C',
           'vf_fixtures.sub.Klass.ATTR', 'vf_fixtures.sub.Klass',
           'vf_fixtures.RC1', 'math.pi', 'os.path.join',
           # objects that cannot be (deep-)copied: a module, a lock
           'vf_fixtures.sub', 'vf_fixtures.LOCK', 'math']
COMPONENTS = ['vf_fixtures.RC0', 'vf_fixtures.RC1', 'vf_fixtures.RC2',
              'vf_fixtures.RC3', 'vf_fixtures.RC4', 'vf_fixtures.RC5',
              'vf_fixtures.sub.Klass.Inner', 'vf_fixtures.sub.Klass.Plain']
PROCESSORS = ['vf_fixtures.RP0', 'vf_fixtures.RP1', 'vf_fixtures.RP2',
              'vf_fixtures.RP3', 'vf_fixtures.RP4', 'vf_fixtures.RPD',
              'vf_fixtures.RPDD']
PASSTHROUGH = ['x ${vf_fixtures.OBJ_A}', '$ {a}', '$${a}', ' $res{a}',
               'res{a}', '$', '${', '$handle', 'cost: 5$', '#${}', '$RES{a}',
               '']


def gen_json(rng, depth=0):
    k = rng.random()
    if depth > 2 or k < 0.45:
        return rng.choice([0, 1, -7, 3.5, None, True, False, 'text', '',
                           'ünï', 10 ** 12])
    if k < 0.6:
        return rng.choice(PASSTHROUGH)
    if k < 0.8:
        # marker-shaped strings nested inside containers must pass through
        return [gen_json(rng, depth + 1) for _ in range(rng.randint(0, 3))] \
            + (['${vf_fixtures.OBJ_A}'] if rng.random() < 0.3 else [])
    return {rng.choice('abc'): gen_json(rng, depth + 1)
            for _ in range(rng.randint(0, 2))}


def gen_arg(rng, refs_ok, tree_paths):
    if refs_ok and rng.random() < 0.45:
        k = rng.random()
        if k < 0.4 or not tree_paths:
            return '${' + rng.choice(OBJECTS) + '}'
        p = rng.choice(tree_paths).replace('/', '.')
        return ('$res{' if k < 0.7 else '$handle{') + p + '}'
    return gen_json(rng)


def gen_call(rng, refs_ok, tree_paths):
    spec = {}
    if rng.random() < 0.7:
        spec['args'] = [gen_arg(rng, refs_ok, tree_paths)
                        for _ in range(rng.randint(0, 3))]
    if rng.random() < 0.5:
        spec['kwargs'] = {k: gen_arg(rng, refs_ok, tree_paths)
                          for k in rng.sample(['alpha', 'beta', 'g'],
                                              rng.randint(0, 2))}
    return spec


def gen_one(rng, tier, index):
    from_file = index % 3 != 0
    # (resource names are free text: hyphens, blanks, signs, non-ASCII)
    names = ['a', 'b', 'c', 'res', 'w1', 'hi-fi', 'level 1', 'p+q', 'é']
    tree_paths = []
    for _ in range(rng.randint(1, 5)):
        depth = rng.randint(1, 4)
        tree_paths.append('/'.join(rng.choice(names) for _ in range(depth)))
    # no path may be a prefix of another (both must stay handles)
    tree_paths = [p for p in sorted(set(tree_paths))
                  if not any(q != p and (q + '/').startswith(p + '/')
                             or (p + '/').startswith(q + '/') and q != p
                             for q in tree_paths)]
    desc = {}
    if rng.random() < 0.85:
        procs = rng.sample(PROCESSORS, rng.randint(0, 4))
        desc['processors'] = [dict(type=t, **gen_call(rng, from_file,
                                                      tree_paths))
                              for t in procs]
    if rng.random() < 0.9:
        ents = []
        used = set()
        for _ in range(rng.randint(0, 6)):
            ent = {}
            if rng.random() < 0.4:
                eid = rng.choice(['player', 'e2', 1000, 1001, 2000, 'x y', 0, '',
                                  -5, 1, 2, 3, 1, 2, 1.0, 2.0])
                if eid in used:
                    continue
                used.add(eid)
                ent['id'] = eid
            if rng.random() < 0.95:
                comps = rng.sample(COMPONENTS, rng.randint(0, 4))
                ent['components'] = [dict(type=t, **gen_call(rng, from_file,
                                                             tree_paths))
                                     for t in comps]
            ents.append(ent)
        desc['entities'] = ents
    if from_file:
        where = rng.choice(['world', 'worlds/level1', 'x/y/z/world'])
    else:
        where = None
    # decoys: the same relative paths also exist below the map that holds the
    # world handle (references are resolved from the ROOT of the tree)
    decoys = []
    if where and '/' in where and rng.random() < 0.5:
        prefix = where.rsplit('/', 1)[0]
        decoys = [f'{prefix}/{p}' for p in tree_paths
                  if rng.random() < 0.7]
    return {'from_file': from_file, 'tree': tree_paths, 'where': where,
            'desc': desc, 'decoys': decoys, 'reload': rng.random() < 0.3,
            # before the second load the program binds other handles to some
            # of the resource paths (which ones: by position)
            'rebind': rng.choice([0, 0, 1, 2, 3]),
            # ... or moves the world handle into ANOTHER resource tree
            # (same paths, other handles) before loading it again
            'move_tree': rng.random() < 0.25,
            # (dictionary entry point) the lists of the description are
            # given as one-shot iterables: generators, map objects
            'one_shot': rng.random() < 0.3}


def gen_scale(rng, index):
    """Dozens of entities with handler components (more than a hundred
    queued load-time callbacks)."""
    case = gen_one(rng, 'quick', index)
    ents = []
    for k in range(rng.choice([64, 65, 90, 130])):
        comps = [{'type': rng.choice(['vf_fixtures.RC0', 'vf_fixtures.RC2',
                                      'vf_fixtures.RC4',
                                      'vf_fixtures.sub.Klass.Inner']),
                  'args': [k]}]
        if rng.random() < 0.3:
            comps.append({'type': 'vf_fixtures.RC1', 'kwargs': {'alpha': k}})
        ent = {'components': comps}
        if rng.random() < 0.2:
            ent['id'] = f'named{k}'
        ents.append(ent)
    case['desc']['entities'] = ents
    case['reload'] = False
    return case


def gen_cases(tier, seed):
    for i in range(4 if tier == 'quick' else 64):
        yield gen_scale(random.Random(f'C15/scale/{seed}/{tier}/{i}'), i)
    # descriptions populated into a world that is already in use
    for i in range(300 if tier == 'quick' else 16 * 600):
        yield gen_prepop(random.Random(f'C15/prepop/{seed}/{tier}/{i}'))
    n = 2500 if tier == 'quick' else 16 * 5000
    for i in range(n):
        case = gen_one(random.Random(f'C15/{seed}/{tier}/{i}'), tier, i)
        if i % 6 == 5:
            # the k-th constructor call of the first load fails once
            case['flaky'] = i // 6 % 4
        # a file handle used on its own, outside any ResourceMap (only
        # when the description asks for no resource)
        case['standalone'] = i % 7 == 3
        yield case
    # the same description loaded by a child interpreter whose locale
    # encoding is not UTF-8 (world files are JSON, i.e. UTF-8 text)
    for i in range(4 if tier == 'quick' else 16 * 6):
        rng = random.Random(f'C15/locale/{seed}/{tier}/{i}')
        yield {'mode': 'locale',
               'strings': [rng.choice(['caf\u00e9', 'na\u00efve \u2603',
                                       '\u65e5\u672c\u8a9e', '\u00fcber',
                                       'plain'])
                           for _ in range(rng.randint(1, 3))],
               'as_kw': rng.random() < 0.5}


def resolve(name):
    import importlib
    parts = name.split('.')
    for i in range(len(parts), 0, -1):
        try:
            obj = importlib.import_module('.'.join(parts[:i]))
            break
        except ImportError:
            continue
    for part in parts[i:]:
        obj = getattr(obj, part)
    return obj


def same_json(a, b):
    if type(a) is not type(b):
        return False
    if isinstance(a, list):
        return len(a) == len(b) and all(same_json(x, y) for x, y in zip(a, b))
    if isinstance(a, dict):
        return set(a) == set(b) and all(same_json(a[k], b[k]) for k in a)
    return a == b


LOCALE_CHILD = r'''
import json, sys
sys.path.insert(0, sys.argv[1]); sys.path.insert(0, sys.argv[2])
import desper, vf_fixtures
vf_fixtures.build()
m = desper.ResourceMap()
m['w'] = desper.WorldFromFileHandle(sys.argv[3])
try:
    w = m['w']
except Exception as ex:
    print(json.dumps({'error': type(ex).__name__ + ': ' + str(ex)[:200]}))
    sys.exit(0)
out = []
for e, c in w.get(vf_fixtures.RC1):
    out.append([list(c.args), c.kwargs])
import locale
print(json.dumps({'args': out,
                  'encoding': locale.getpreferredencoding(False)}))
'''


def run_locale(case):
    import subprocess
    import sys
    from vf import DESPER_ROOT
    res = Res()
    tmp = tempfile.mkdtemp(prefix='vf-c15-')
    try:
        strings = case['strings']
        comp = {'type': 'vf_fixtures.RC1'}
        if case['as_kw']:
            comp['kwargs'] = {f'k{i}': s for i, s in enumerate(strings)}
        else:
            comp['args'] = list(strings)
        desc = {'entities': [{'components': [comp]}]}
        path = os.path.join(tmp, 'world.json')
        with open(path, 'w', encoding='utf-8') as fout:
            json.dump(desc, fout, ensure_ascii=False)
        verif = os.path.dirname(os.path.dirname(os.path.dirname(
            os.path.abspath(__file__))))
        env = {k: v for k, v in os.environ.items()
               if not k.startswith('LC_') and k not in ('LANG', 'PYTHONUTF8')}
        env.update(LC_ALL='C', PYTHONUTF8='0', PYTHONCOERCECLOCALE='0',
                   PYTHONDONTWRITEBYTECODE='1')
        proc = subprocess.run([sys.executable, '-c', LOCALE_CHILD,
                               DESPER_ROOT, verif, path],
                              capture_output=True, text=True, timeout=120,
                              env=env)
        res.stats['loads_under_a_non_utf8_locale'] += 1
        try:
            got = json.loads(proc.stdout.strip().splitlines()[-1])
        except Exception:
            res.div(0, 'locale-child-failed', 'the child interpreter did '
                    'not report', 'a report', (proc.stdout
                                               + proc.stderr)[-400:])
            return res
        res.tags['child_locale_encoding'].add(got.get('encoding', '?'))
        want = [[[] if case['as_kw'] else list(strings),
                 {f'k{i}': s for i, s in enumerate(strings)}
                 if case['as_kw'] else {}]]
        if got.get('args') != want:
            res.div(0, 'non-ascii-argument-altered', 'a world file with '
                    'non-ASCII string arguments, loaded by an interpreter '
                    'whose locale encoding is not UTF-8: the arguments do '
                    'not pass through unchanged', want,
                    got.get('args', got.get('error')))
        res.nontrivial = any(ord(ch) > 127 for s in strings for ch in s)
        res.sample = {'strings': strings, 'child': got}
    finally:
        shutil.rmtree(tmp, ignore_errors=True)
    return res


def gen_prepop(rng):
    residents = sorted(rng.sample(range(1, 9), rng.randint(1, 5)))
    doomed = [r for r in residents if rng.random() < 0.6]
    listed = []
    for k in range(rng.randint(2, 6)):
        if rng.random() < 0.4:
            listed.append(rng.choice([100 + k, f'x{k}', (k, 'id')]))
        else:
            listed.append(None)         # automatic identifier
    return {'mode': 'prepopulated', 'residents': residents, 'doomed': doomed,
            'listed': listed, 'drawn': rng.randint(0, 3)}


def run_prepop(case):
    """A description populated into a world that is already in use: some
    entities live under integer ids the automatic counter has not reached
    yet, some of them await their deferred deletion. Every listed entity
    becomes an entity of its own (an automatic identifier never falls on an
    id that owns components), the residents are not touched, and the next
    process() takes the doomed ones away and nothing else."""
    desper = import_desper()
    res = Res()

    class Tag:
        def __init__(self, label):
            self.label = label

    w = desper.World()
    for _ in range(case['drawn']):
        w.delete_entity(w.create_entity(Tag('scratch')), immediate=True)
    residents = {}
    for i in case['residents']:
        residents[i] = Tag(('resident', i))
        w.create_entity(residents[i], entity_id=i)
    for i in case['doomed']:
        w.delete_entity(i)
    desc = {'entities': []}
    for k, eid in enumerate(case['listed']):
        ent = {'components': [{'type': Tag, 'args': [('listed', k)]}]}
        if eid is not None:
            ent['id'] = tuple(eid) if isinstance(eid, list) else eid
        desc['entities'].append(ent)
    try:
        desper.populate_world_from_dict(w, desc)
    except Exception as ex:
        res.div(0, 'load-raised', 'populating a world that is in use raised',
                'no exception', repr(ex))
        return res

    def story(when, gone=()):
        owners = {}
        for e, c in w.get(Tag):
            owners.setdefault(c.label, []).append(e)
        for i, c in residents.items():
            want = [] if i in gone else [i]
            if owners.get(c.label, []) != want \
                    or (i not in gone and [x.label for x in
                                           w.get_components(i)]
                        != [c.label]):
                res.div(1, 'resident-entity-touched', f'{when}: resident '
                        f'entity {i} (awaiting deletion: '
                        f'{i in case["doomed"]})', [c.label],
                        [x.label for x in w.get_components(i)])
                return False
        for k, eid in enumerate(case['listed']):
            at = owners.get(('listed', k), [])
            res.stats['prepopulated_entities_checked'] += 1
            if len(at) != 1 or at[0] in residents or (
                    eid is not None and at[0] != (
                        tuple(eid) if isinstance(eid, list) else eid)) \
                    or len(w.get_components(at[0])) != 1 \
                    or not w.entity_exists(at[0]):
                res.div(1, 'listed-entity-merged', f'{when}: listed entity '
                        f'{k} (id {eid!r}) is not an entity of its own with '
                        'exactly its listed component', 'a fresh identifier',
                        {'owners': at, 'components': [
                            x.label for e in at
                            for x in w.get_components(e)],
                         'exists': [w.entity_exists(e) for e in at]})
                return False
        return True

    if not story('after populate'):
        return res
    try:
        w.process(1)
    except Exception as ex:
        res.div(2, 'process-raised', 'the frame after the population raised',
                'no exception', repr(ex))
        return res
    story('after the next process()', gone=set(case['doomed']))
    res.nontrivial = bool(case['doomed']) and None in case['listed']
    res.tags['prepopulated'].add((len(case['residents']),
                                  len(case['doomed'])))
    return res


def run_case(case):
    if case.get('mode') == 'locale':
        return run_locale(case)
    if case.get('mode') == 'prepopulated':
        return run_prepop(case)
    desper = import_desper()
    import vf_fixtures
    vf_fixtures.build()
    res = Res()
    tmp = tempfile.mkdtemp(prefix='vf-c15-')
    try:
        _run(case, desper, vf_fixtures, res, tmp)
    finally:
        shutil.rmtree(tmp, ignore_errors=True)
    return res


def _run(case, desper, fx, res, tmp):
    del fx.LOG[:]
    desc = case['desc']
    root = desper.ResourceMap()
    handles = {}

    class RH(desper.Handle):
        def __init__(self, path):
            self.path = path
            self.n = 0

        def load(self):
            self.n += 1
            self.obj = ['loaded', self.path, self.n]
            return self.obj

    for p in case['tree']:
        handles[p] = RH(p)
        root[p] = handles[p]
        handles[p]()
    for p in case.get('decoys', []):
        root[p] = RH('decoy:' + p)
        res.tags['decoys'].add(True)

    stats = {'kinds': set(), 'dollar': False}

    def expect(arg):
        """-> ('is', obj) for references, ('json', value) otherwise."""
        if case['from_file'] and isinstance(arg, str):
            if arg.startswith('${') and arg.endswith('}'):
                stats['kinds'].add('obj')
                return ('is', resolve(arg[2:-1]))
            if arg.startswith('$res{') and arg.endswith('}'):
                stats['kinds'].add('res')
                return ('is', handles[arg[5:-1].replace('.', '/')].obj)
            if arg.startswith('$handle{') and arg.endswith('}'):
                stats['kinds'].add('handle')
                return ('is', handles[arg[8:-1].replace('.', '/')])
        if isinstance(arg, str) and '$' in arg:
            stats['dollar'] = True
        return ('json', arg)

    # ---- load through the chosen entry point
    try:
        if case['from_file']:
            path = os.path.join(tmp, 'world.json')
            with open(path, 'w') as fout:
                json.dump(desc, fout)
            handle = desper.WorldFromFileHandle(path)
            text = json.dumps(desc)
            if case.get('standalone') and '$res{' not in text \
                    and '$handle{' not in text:
                res.tags['file_handle_outside_a_map'].add(True)
            else:
                root[case['where']] = handle
        else:
            concrete = json.loads(json.dumps(desc))
            for pd in concrete.get('processors', []):
                pd['type'] = resolve(pd['type'])
            for ed in concrete.get('entities', []):
                for cd in ed.get('components', []):
                    cd['type'] = resolve(cd['type'])
            if case.get('one_shot'):
                # every access to the handle builds the iterables anew
                def described():
                    out = dict(concrete)
                    if 'processors' in out:
                        out['processors'] = (p for p in concrete['processors'])
                    if 'entities' in out:
                        out['entities'] = map(
                            lambda ed: dict(ed, components=iter(
                                ed['components'])) if 'components' in ed
                            else ed, concrete['entities'])
                    return out
                res.tags['one_shot_iterables'].add(True)
            else:
                def described():
                    return concrete
            handle = desper.WorldHandle()
            handle.transform_functions.append(
                lambda h, w: desper.populate_world_from_dict(w, described()))
        fx.FAIL.update(countdown=case.get('flaky'), fired=False)
        try:
            world = handle()
        except fx.FixtureFault:
            world = None
        finally:
            fx.FAIL['countdown'] = None
        if fx.FAIL['fired']:
            # the first load failed in a constructor and the program
            # carries on: a second access may fail again (not judged), but
            # a world it returns must be the complete one
            res.stats['loads_failed_once'] += 1
            if world is not None:
                res.div(0, 'fault-not-propagated', 'a constructor raised '
                        'during the load but the handle returned a world',
                        'the exception', 'a world')
                return
            del fx.LOG[:]
            for h in handles.values():
                h.n = h.n       # resources stay loaded
            try:
                world = handle()
            except Exception:
                res.stats['dontcare_retry_raised'] += 1
                return
            res.tags['retried_after_failed_load'].add(True)
    except Exception as ex:
        res.div(0, 'load-raised', 'loading a well-formed description raised '
                f'{type(ex).__name__}: {str(ex)[-300:]}', 'a world',
                repr(ex)[-300:], where=case['where'])
        return

    def fail(kind, what, expected, observed, **kw):
        res.div(0, kind, what, expected=expected, observed=observed, **kw)

    if world.dispatch_enabled is not False:
        fail('dispatch-enabled', 'the loaded world must be returned with '
             'dispatching disabled', False, world.dispatch_enabled)
        return
    early = [e for e in fx.LOG if e[0] in ('on_add', 'on_world_load')]
    if early:
        fail('callback-before-enable', 'lifecycle callbacks ran before '
             'dispatching was enabled', [], [e[0] for e in early])
        return

    def check_call(obj, spec, what):
        res.stats['constructor_calls_checked'] += 1
        want_args = [expect(a) for a in spec.get('args', [])]
        want_kwargs = {k: expect(v) for k, v in spec.get('kwargs', {}).items()}
        ok = (len(obj.args) == len(want_args)
              and set(obj.kwargs) == set(want_kwargs))
        if ok:
            pairs = list(zip(obj.args, want_args)) + [
                (obj.kwargs[k], want_kwargs[k]) for k in want_kwargs]
            for got, (how, want) in pairs:
                if how == 'is':
                    res.stats['references_substituted'] += 1
                    ok = ok and got is want
                else:
                    res.stats['plain_arguments'] += 1
                    ok = ok and same_json(got, want)
        if not ok:
            fail('constructor-arguments', f'{what} was not built from the '
                 'listed positional/keyword arguments (after reference '
                 'substitution)',
                 [[repr(w) for _, w in want_args],
                  {k: repr(w) for k, (_, w) in want_kwargs.items()}],
                 [[repr(a) for a in obj.args],
                  {k: repr(v) for k, v in obj.kwargs.items()}],
                 spec=spec)
        return ok

    # ---- processors
    listed = desc.get('processors', [])
    got_procs = list(world.processors)
    want_types = []
    if case['from_file']:
        want_types += [(0, desper.OnUpdateProcessor),
                       (0, desper.CoroutineProcessor)]
    want_types += [(resolve(p['type']).priority, resolve(p['type']))
                   for p in listed]
    order = [t for _, t in sorted(want_types, key=lambda x: x[0])]
    got_types = [type(p) for p in got_procs]
    if case['from_file'] and got_types != order:
        # the two default processors come before the listed ones; their
        # mutual order is not stated
        swapped = [(0, desper.CoroutineProcessor),
                   (0, desper.OnUpdateProcessor)] + want_types[2:]
        alt = [t for _, t in sorted(swapped, key=lambda x: x[0])]
        if got_types == alt:
            res.stats['dontcare_default_processor_order'] += 1
            order = alt
    if got_types != order:
        fail('processors', 'processors of the loaded world',
             [t.__name__ for t in order],
             [type(p).__name__ for p in got_procs])
        return
    for spec in listed:
        p = world.get_processor(resolve(spec['type']))
        if not check_call(p, spec, f'processor {spec["type"]}'):
            return
    # ---- entities
    # entities without an id get automatic identifiers; WHICH identifier is
    # not stated, so they are matched to the entities of the world by content
    explicit = {repr(e['id']) for e in desc.get('entities', []) if 'id' in e}
    unclaimed = [e for e in world.entities if repr(e) not in explicit]

    def matches(obj, spec):
        want_args = [expect(a) for a in spec.get('args', [])]
        want_kwargs = {k: expect(v) for k, v in spec.get('kwargs', {}).items()}
        if len(obj.args) != len(want_args) \
                or set(obj.kwargs) != set(want_kwargs):
            return False
        pairs = list(zip(obj.args, want_args)) + [
            (obj.kwargs[k], want_kwargs[k]) for k in want_kwargs]
        return all(g is w if how == 'is' else same_json(g, w)
                   for g, (how, w) in pairs)

    def claim(comps):
        names = sorted(resolve(c['type']).__name__ for c in comps)
        for cand in unclaimed:
            got = world.get_components(cand)
            if sorted(type(c).__name__ for c in got) != names:
                continue
            if all(matches(world.get_component(cand, resolve(s['type'])), s)
                   for s in comps):
                unclaimed.remove(cand)
                return cand
        return None

    want_entities = []
    for ent in desc.get('entities', []):
        comps = ent.get('components', [])
        if 'id' in ent:
            eid = ent['id']
        elif not comps:
            continue            # nothing to find: the entity does not exist
        else:
            eid = claim(comps)
            if eid is None:
                fail('entity-components', 'no entity of the loaded world '
                     'carries exactly the components (types and arguments) '
                     'of an id-less entity of the description',
                     [c['type'] for c in comps],
                     {repr(e): [type(c).__name__
                                for c in world.get_components(e)]
                      for e in unclaimed})
                return
            res.stats['idless_entities_matched'] += 1
        if comps:
            want_entities.append(eid)
        got = world.get_components(eid)
        if sorted(type(c).__name__ for c in got) != sorted(
                resolve(c['type']).__name__ for c in comps) \
                or len(got) != len(comps):
            fail('entity-components', f'components of entity {eid!r}',
                 [c['type'] for c in comps], [type(c).__name__ for c in got])
            return
        for spec in comps:
            c = world.get_component(eid, resolve(spec['type']))
            if type(c) is not resolve(spec['type']):
                fail('entity-components', f'component {spec["type"]} of '
                     f'entity {eid!r}', spec['type'], repr(c))
                return
            if not check_call(c, spec, f'component {spec["type"]} of '
                              f'entity {eid!r}'):
                return
    if sorted(map(repr, world.entities)) != sorted(map(repr, want_entities)):
        fail('entities', 'entities of the loaded world', want_entities,
             list(world.entities))
        return
    n_new = sum(1 for e in fx.LOG if e[0] == 'new')
    want_new = len(listed) + sum(len(e.get('components', []))
                                 for e in desc.get('entities', []))
    if n_new != want_new:
        fail('extra-construction', 'number of objects constructed', want_new,
             n_new)
        return
    # ---- lifecycle after enabling
    mark = len(fx.LOG)
    try:
        world.dispatch_enabled = True
    except Exception as ex:
        fail('enable-raised', f'enabling the loaded world raised '
             f'{type(ex).__name__}: {ex}', 'no exception', repr(ex))
        return
    events = fx.LOG[mark:]
    for eid in want_entities:
        for c in world.get_components(eid):
            if not hasattr(c, '__events__'):
                continue
            mine = [e for e in events if e[1] is c]
            res.stats['lifecycle_checked'] += 1
            ok = ([e[0] for e in mine] == ['on_add', 'on_world_load']
                  and mine[0][2] == eid and mine[0][3] is world
                  and mine[1][2] is handle and mine[1][3] is world)
            if not ok:
                fail('load-lifecycle', f'handler component of entity {eid!r} '
                     'must get on_add(entity, world) once and then '
                     'on_world_load(handle, world) once',
                     ['on_add', 'on_world_load'],
                     [[e[0], repr(e[2])] for e in mine])
                return
    # ---- loading the same handle again gives a world built afresh
    if case.get('reload') and case['from_file']:
        first_objects = [e[1] for e in fx.LOG if e[0] == 'new']
        for h in handles.values():
            h.clear()
            h()                      # resources are new objects now
        # ... and some paths are bound to other handles altogether: the
        # second load must be substituted against what the map holds NOW
        step = case.get('rebind', 0)
        for i, p in enumerate(sorted(handles)):
            if step and i % step == 0:
                handles[p] = RH(p)
                root[p] = handles[p]
                handles[p]()
                res.stats['paths_rebound_before_reload'] += 1
        if case.get('move_tree') and not case.get('standalone') \
                and getattr(handle, 'parent', None) is not None:
            root2 = desper.ResourceMap()
            for p in sorted(handles):
                handles[p] = RH('tree2:' + p)
                root2[p] = handles[p]
                handles[p]()
            root2[case['where']] = handle
            res.stats['world_handle_moved_to_another_tree'] += 1
        mark = len(fx.LOG)
        handle.clear()
        try:
            world2 = handle()
        except Exception as ex:
            fail('load-raised', 'second load of the same handle raised',
                 'a world', repr(ex)[-300:])
            return
        res.stats['reloads_checked'] += 1
        specs = listed + [c for ent in desc.get('entities', [])
                          for c in ent.get('components', [])]
        again = [e[1] for e in fx.LOG[mark:] if e[0] == 'new']
        if len(again) != len(specs):
            fail('extra-construction', 'objects constructed by the second '
                 'load', len(specs), len(again))
            return

        def assign(objects):
            """spec index -> object, by type and arguments (the order in
            which objects are constructed is not stated)."""
            left = list(objects)
            out = {}
            for i, spec in enumerate(specs):
                for obj in left:
                    if type(obj) is resolve(spec['type']) \
                            and matches(obj, spec):
                        out[i] = obj
                        left.remove(obj)
                        break
            return out

        # first-load objects were built against the resources of that time:
        # only the new ones can be compared with the current substitution
        second = assign(again)
        if len(second) != len(specs):
            missing = [specs[i]['type'] for i in range(len(specs))
                       if i not in second]
            fail('constructor-arguments', 'second load of the same handle: '
                 'objects not built from the listed arguments (after '
                 'substitution against the CURRENT resources)', missing,
                 [[type(o).__name__, [repr(a) for a in o.args]]
                  for o in again][:6])
            return
        res.stats['constructor_calls_checked'] += len(specs)
        olds = {}
        left = list(first_objects)
        for i, spec in enumerate(specs):
            for obj in left:
                if type(obj) is resolve(spec['type']) and len(obj.args) == \
                        len(spec.get('args', [])):
                    olds[i] = obj
                    left.remove(obj)
                    break
        for i, obj in second.items():
            old = olds.get(i)
            if old is None:
                continue
            for a, b in zip(obj.args, old.args):
                if isinstance(a, (list, dict)) and a is b \
                        and not str(a).startswith("['loaded'"):
                    fail('shared-mutable-argument', 'a mutable argument of '
                         'the description is shared between two loads of '
                         'the same handle', 'fresh copy', repr(a))
                    return
    res.nontrivial = (len(want_entities) >= 2 and len(stats['kinds']) >= 2
                      and stats['dollar']) or (
        not case['from_file'] and len(want_entities) >= 2 and stats['dollar'])
    for k in stats['kinds']:
        res.tags['reference_kinds'].add(k)
    res.tags['where'].add(str(case['where']))
    res.sample = {'constructed': n_new, 'entities': len(want_entities),
                  'reference_kinds': sorted(stats['kinds'])}


def shrink(case):
    if case.get('mode') == 'prepopulated':
        for key in ('listed', 'residents', 'doomed'):
            for i in range(len(case[key])):
                if len(case[key]) > 1 or key == 'doomed':
                    cand = dict(case, **{key: case[key][:i]
                                         + case[key][i + 1:]})
                    cand['doomed'] = [d for d in cand['doomed']
                                      if d in cand['residents']]
                    yield cand
        return
    if case.get('mode') == 'locale':
        if len(case['strings']) > 1:
            yield dict(case, strings=case['strings'][:-1])
        return
    desc = case['desc']
    ents = desc.get('entities', [])
    for i in range(len(ents)):
        yield dict(case, desc=dict(desc, entities=ents[:i] + ents[i + 1:]))
    procs = desc.get('processors', [])
    for i in range(len(procs)):
        yield dict(case, desc=dict(desc, processors=procs[:i] + procs[i + 1:]))
    for i, ent in enumerate(ents):
        comps = ent.get('components', [])
        for j in range(len(comps)):
            new = [dict(e) for e in ents]
            new[i]['components'] = comps[:j] + comps[j + 1:]
            yield dict(case, desc=dict(desc, entities=new))


def classify(case, div):
    return None
