"""C06 - Type queries match exactly the subclasses, once each."""
import collections
import itertools
import random

from vf import import_desper
from vf.core import Res

ID = 'C06'
LEVEL = 'exploration'
RULE = ('class DAGs: every DAG over <=4 classes with every ordered tuple of '
        'earlier classes as bases (exhaustive; tuples Python rejects for MRO '
        'reasons fall back to their first base), plus random DAGs of up to 7 '
        '(quick) / 9 (thorough) classes with 1-3 bases each (diamonds, double '
        'diamonds, fans, chains). Each DAG is instantiated twice: as plain '
        'component classes and as Processor subclasses. Entities get 1-4 '
        'components of distinct exact types, the world one processor per '
        'chosen type. For EVERY class T of the DAG: get(T) as a multiset, '
        'get_component/has_component per entity, get_processor, and - on '
        'rebuilt copies of the state - remove_component per entity and '
        'remove_processor, compared with the issubclass-defined expectation '
        '(each match once, exact type first, exactly one object detached, '
        'nothing else changed). Non-trivial = multiple inheritance with a '
        'populated class reachable along >=2 paths from a queried type.'
        ' Rounds 9-13 added: components given again through create_entity'
        ' with an id in use; handler components that ask every type query'
        ' from inside on_add/on_remove; removals with dispatching disabled;'
        ' exact-type priority for a bare object().'
        ' Round 14 added: query consistency for an abc-registered type.')
ANCHORS = [
    'desper/logic/world.py::World._get',
    'desper/logic/world.py::World.get_component',
    'desper/logic/world.py::World.has_component',
    'desper/logic/world.py::World.remove_component',
    'desper/logic/world.py::World.get_processor',
    'desper/logic/world.py::World.remove_processor',
]
MIN_NONTRIVIAL = {'quick': 150, 'thorough': 5000}
MIN_STATS = {'queries_checked': 20000}
EXHAUSTIVE = {'quick': 'all DAGs with <=4 classes over ordered base tuples '
                       '(a fixed population per DAG); the random DAGs are a '
                       'sample',
              'thorough': 'all DAGs with <=4 classes over ordered base tuples; '
                          'the random DAGs are a sample'}
ASSUMPTIONS = ['which subclass object a single-result query picks when no '
               'exact-type object exists is not judged; result order is not '
               'judged']


def all_small_dags(maxn=4):
    def base_options(i):
        opts = [[]]
        for r in range(1, i + 1):
            for sub in itertools.permutations(range(i), r):
                opts.append(list(sub))
        return opts

    def rec(prefix, n):
        if len(prefix) == n:
            yield list(prefix)
            return
        for opt in base_options(len(prefix)):
            yield from rec(prefix + [opt], n)
    for n in range(1, maxn + 1):
        yield from rec([], n)


def fixed_population(n):
    ents = [[k] for k in range(n)] + [list(range(n))]
    return ents, list(range(n))


def gen_random(rng, maxn):
    n = rng.randint(2, maxn)
    dag = [[]]
    for i in range(1, n):
        style = rng.random()
        if style < 0.15:
            bases = []
        else:
            k = rng.choices([1, 2, 3], [35, 45, 20])[0]
            bases = rng.sample(range(i), min(k, i))
        dag.append(bases)
    ents = []
    for _ in range(rng.randint(1, 4)):
        ents.append(rng.sample(range(n), rng.randint(1, min(4, n))))
    procs = rng.sample(range(n), rng.randint(1, n))
    # classes of different namespaces may share one name
    return {'dag': dag, 'entities': ents, 'procs': procs,
            'same_names': rng.random() < 0.3,
            # components may be falsy objects (__bool__/__len__)
            'falsy': rng.choice([None, None, 'bool', 'len']),
            # a class defined AFTER the first queries: [bases], populated
            'late': [rng.sample(range(n), rng.randint(1, min(2, n)))
                     for _ in range(rng.randint(0, 2))],
            # after the first queries: components attached / detached, or
            # given again through create_entity with the id of the entity
            # that has them ('over'), then every query again
            'churn': [[rng.randrange(len(ents)), rng.randrange(n),
                       rng.choice(['toggle', 'over', 'over'])]
                      for _ in range(rng.choice([0, 0, 1, 2, 3]))],
            # components are on_add handlers that query the world
            'watch': rng.random() < 0.35}


def gen_scale(rng):
    """A deep/wide hierarchy with many entities; components of indirect
    subclasses are attached and detached BETWEEN two rounds of queries."""
    n = 9
    dag = [[]] + [[rng.randrange(i)] if rng.random() < 0.7
                  else rng.sample(range(i), min(2, i)) for i in range(1, n)]
    ents = [rng.sample(range(n), rng.randint(1, 3)) for _ in range(130)]
    return {'dag': dag, 'entities': ents, 'procs': list(range(n)),
            'scale': True, 'late': [[n - 1], [rng.randrange(n)]],
            'churn': [[rng.randrange(130), rng.randrange(n)]
                      for _ in range(40)]}


def gen_cases(tier, seed):
    # chains of diamonds: the number of inheritance paths doubles per level
    for k in ((6, 10, 13) if tier == 'quick' else (6, 10, 13, 15, 16)):
        for where in ('top', 'bottom', 'side', 'none'):
            yield {'mode': 'diamonds', 'k': k, 'where': where}
    for i in range(2 if tier == 'quick' else 32):
        yield gen_scale(random.Random(f'C06/scale/{seed}/{tier}/{i}'))
    for dag in all_small_dags(4):
        ents, procs = fixed_population(len(dag))
        yield {'dag': dag, 'entities': ents, 'procs': procs}
    n = 1500 if tier == 'quick' else 16 * 8000
    maxn = 7 if tier == 'quick' else 9
    for i in range(n):
        yield gen_random(random.Random(f'C06/{seed}/{tier}/{i}'), maxn)


def build_classes(dag, root, res, ns=None, same_names=False):
    classes = []
    effective = []
    for i, bases in enumerate(dag):
        cand = tuple(classes[b] for b in bases) or (root,)
        name = 'D' if same_names else f'D{i}'
        try:
            cls = type(name, cand, dict(ns or {}))
            eff = list(bases)
        except TypeError:
            res.stats['mro_rejected'] += 1
            cand = (classes[bases[0]],)
            cls = type(name, cand, dict(ns or {}))
            eff = [bases[0]]
        classes.append(cls)
        effective.append(eff)
    return classes, effective


def path_counts(effective):
    """paths[t][x] = number of distinct subclass paths from t down to x."""
    n = len(effective)
    paths = [[0] * n for _ in range(n)]
    for t in range(n):
        paths[t][t] = 1
        for x in range(t + 1, n):
            paths[t][x] = sum(paths[t][b] for b in effective[x])
    return paths


def run_diamonds(case):
    """D0 <- (L1, R1) <- D1 <- (L2, R2) <- D2 ...: 3k+1 classes, 2**k
    inheritance paths between D0 and Dk. Every query must give the right
    answer after a number of loop iterations that is linear in the number
    of classes, not in the number of paths (counted with sys.monitoring
    JUMP events inside desper/logic/world.py; no clock involved)."""
    import sys
    desper = import_desper()
    res = Res()
    k = case['k']

    def chain(base, ns):
        tops = [type('D0', (base,), dict(ns))]
        sides = []
        for i in range(1, k + 1):
            left = type(f'L{i}', (tops[-1],), {})
            right = type(f'R{i}', (tops[-1],), {})
            sides.append(left)
            tops.append(type(f'D{i}', (left, right), {}))
        return tops, sides

    class CRoot:
        pass
    ctops, csides = chain(CRoot, {})
    ptops, psides = chain(desper.Processor,
                          {'process': lambda self, dt=1: None})
    nclasses = 3 * k + 1
    w = desper.World()
    where = case['where']
    comp = proc = None
    if where != 'none':
        cls = {'top': ctops[0], 'bottom': ctops[-1],
               'side': csides[len(csides) // 2]}[where]
        comp = cls()
        pcls = {'top': ptops[0], 'bottom': ptops[-1],
                'side': psides[len(psides) // 2]}[where]
        proc = pcls()
    e = w.create_entity(*( [comp] if comp is not None else [CRoot()]))
    if proc is not None:
        w.add_processor(proc)
    mon = sys.monitoring
    tool = 3
    code_file = desper.logic.world.__file__
    count = [0]

    def on_jump(code, offset, dest):
        if code.co_filename != code_file:
            return mon.DISABLE
        count[0] += 1

    budget = 40 * nclasses + 200
    queries = [
        ('get', lambda: [c for _, c in w.get(ctops[0])],
         lambda r: r == ([comp] if comp is not None else [])),
        ('has_component', lambda: w.has_component(e, ctops[0]),
         lambda r: r is (comp is not None)),
        ('get_component', lambda: w.get_component(e, ctops[0]),
         lambda r: r is comp),
        ('get_processor', lambda: w.get_processor(ptops[0]),
         lambda r: r is proc),
        ('remove_processor', lambda: w.remove_processor(ptops[0]),
         lambda r: r is proc),
        ('remove_component', lambda: w.remove_component(e, ctops[0]),
         lambda r: r is comp),
    ]
    mon.use_tool_id(tool, 'vf-c06-walk')
    mon.register_callback(tool, mon.events.JUMP, on_jump)
    mon.set_events(tool, mon.events.JUMP)
    try:
        for name, run, good in queries:
            count[0] = 0
            result = run()
            res.stats['queries_checked'] += 1
            res.stats['walk_iterations_counted'] += count[0]
            res.tags['walk_iterations_per_class'].add(
                round(count[0] / nclasses))
            if not good(result):
                res.div(k, name, f'{name}(D0) on a chain of {k} diamonds '
                        f'(component on {where})', 'the matching object',
                        repr(result))
                break
            if count[0] > budget:
                res.div(k, 'walk-visits-paths-not-classes', f'{name}(D0) on '
                        f'a chain of {k} diamonds ({nclasses} classes, '
                        f'2**{k} inheritance paths) needed {count[0]} loop '
                        'iterations', f'<= {budget} (linear in the classes)',
                        count[0])
                break
    finally:
        mon.set_events(tool, 0)
        mon.register_callback(tool, mon.events.JUMP, None)
        mon.free_tool_id(tool)
    res.nontrivial = True
    res.sample = {'k': k, 'classes': nclasses}
    return res


def run_case(case):
    if case.get('mode') == 'diamonds':
        return run_diamonds(case)
    desper = import_desper()
    res = Res()
    dag = case['dag']

    class CRoot:
        pass

    watch = {'world': None, 'reads': 0}
    if case.get('watch'):
        # every component looks at the world from its on_add: the type
        # queries and the per-entity queries tell one story there too
        def on_add(self, entity, world, where='on_add'):
            if 'types' not in watch or res.divs:
                return
            watch['reads'] += 1
            for t, T in enumerate(watch['types']):
                got = collections.Counter(
                    (repr(x), id(c)) for x, c in world.get(T))
                want = collections.Counter(
                    (repr(x), id(c)) for x in world.entities
                    for c in world.get_components(x) if isinstance(c, T))
                res.stats['queries_checked'] += 1
                if got != want:
                    res.div(t, 'get-inside-' + where, f'get(D{t}) asked '
                            f'from inside an {where} disagrees with entities/'
                            'get_components asked at the same moment',
                            expected=len(want), observed=len(got))
                    return
        CRoot.on_add = on_add
        CRoot.on_remove = lambda self, entity, world: on_add(
            self, entity, world, 'on_remove')
        CRoot = desper.event_handler('on_add', 'on_remove')(CRoot)
        res.tags['components_query_from_on_add'].add(True)

    same = case.get('same_names', False)
    falsy_ns = {'bool': {'__bool__': lambda self: False},
                'len': {'__len__': lambda self: 0}}.get(case.get('falsy'), {})
    if falsy_ns:
        res.tags['falsy_components'].add(case['falsy'])
    comp_classes, effective = build_classes(dag, CRoot, res, ns=falsy_ns,
                                            same_names=same)
    proc_classes, _ = build_classes(
        dag, desper.Processor, res,
        ns={'process': lambda self, dt=1: None}, same_names=same)
    if same:
        res.tags['same_names'].add(True)
    paths = path_counts(effective)
    n = len(dag)
    shape = tuple(tuple(b) for b in effective)
    res.tags['dag_shape'].add(repr(shape))
    multi = any(len(b) > 1 for b in effective)
    populated = {k for ent in case['entities'] for k in ent}

    def build_world():
        w = desper.World()
        comps = []
        for ei, ent in enumerate(case['entities']):
            row = {}
            for k in ent:
                c = comp_classes[k]()
                c.uid = (ei, k)
                row[k] = c
            e = w.create_entity(*row.values())
            comps.append((e, row))
        procs = {}
        for k in case['procs']:
            p = proc_classes[k]()
            p.uid = k
            procs[k] = p
            w.add_processor(p)
        return w, comps, procs

    def sub(cls_list, k, t):
        return issubclass(cls_list[k], cls_list[t])

    def fail(kind, what, expected, observed, t):
        res.div(t, kind, what, expected=expected, observed=observed,
                dag=[list(b) for b in effective])

    w, comps, procs = build_world()
    watch['types'] = list(comp_classes)
    watch['world'] = w      # (from now on: the first queries come first)
    for t in range(n):
        T, PT = comp_classes[t], proc_classes[t]
        # ---- get(T)
        want = collections.Counter(
            (e, c.uid) for e, row in comps for k, c in row.items()
            if sub(comp_classes, k, t))
        try:
            got = collections.Counter((e, c.uid) for e, c in w.get(T))
        except Exception as ex:
            return _fin(res, fail('query-raised', f'get(D{t}) raised',
                                  None, repr(ex), t))
        res.stats['queries_checked'] += 1
        if got != want:
            fail('get-multiplicity', f'get(D{t}) does not list each matching '
                 'component exactly once',
                 sorted(map(str, want.elements())),
                 sorted(map(str, got.elements())), t)
            return _fin(res)
        # ---- single-result queries per entity
        for e, row in comps:
            match = [k for k in row if sub(comp_classes, k, t)]
            sentinel = object()
            one = w.get_component(e, T, sentinel)
            has = w.has_component(e, T)
            res.stats['queries_checked'] += 2
            if has != bool(match):
                fail('has_component', f'has_component({e}, D{t})',
                     bool(match), has, t)
                return _fin(res)
            if not match:
                good = one is sentinel
            elif t in row:
                good = one is row[t]
            else:
                good = any(one is row[k] for k in match)
            if not good:
                fail('get_component', f'get_component({e}, D{t}) returned a '
                     'non-matching object or ignored the exact type',
                     [f'D{k}' for k in match], getattr(one, 'uid', repr(one)),
                     t)
                return _fin(res)
            if case.get('scale'):
                continue            # rebuilt copies are for the small cases
            # ---- remove_component on a rebuilt copy
            w2, comps2, procs2 = build_world()
            e2, row2 = comps2[[x[0] for x in comps].index(e)]
            before = {x: set(c.uid for c in w2.get_components(x))
                      for x, _ in comps2}
            if case.get('watch') and t % 2:
                # (handler components: the on_remove is postponed)
                w2.dispatch_enabled = False
                res.tags['removal_while_dispatching_disabled'].add(True)
            removed = w2.remove_component(e2, T)
            after = {x: set(c.uid for c in w2.get_components(x))
                     for x, _ in comps2}
            res.stats['queries_checked'] += 1
            gone = {(x, u) for x in before for u in before[x] - after[x]}
            added = {(x, u) for x in before for u in after[x] - before[x]}
            if not match:
                good = removed is None and not gone and not added
                exp = 'nothing removed'
            else:
                legal = [t] if t in row2 else match
                good = (removed is not None and not added
                        and any(removed is row2[k] for k in legal)
                        and gone == {(e2, removed.uid)})
                exp = f'exactly one of {["D%d" % k for k in legal]} detached'
            if not good:
                fail('remove_component', f'remove_component({e}, D{t})', exp,
                     {'returned': getattr(removed, 'uid', repr(removed)),
                      'gone': sorted(map(str, gone)),
                      'added': sorted(map(str, added))}, t)
                return _fin(res)
            if match:
                # the detached component is gone for the type index as well
                left = collections.Counter(
                    (x, c.uid) for x, c in w2.get(comp_classes[removed.uid[1]]))
                if (e2, removed.uid) in left:
                    fail('remove_component', 'removed component still listed '
                         'by get()', None, sorted(map(str, left)), t)
                    return _fin(res)
        # ---- processors
        pmatch = [k for k in procs if sub(proc_classes, k, t)]
        one = w.get_processor(PT)
        res.stats['queries_checked'] += 1
        if not pmatch:
            good = one is None
        elif t in procs:
            good = one is procs[t]
        else:
            good = any(one is procs[k] for k in pmatch)
        if not good:
            fail('get_processor', f'get_processor(D{t})',
                 [f'D{k}' for k in pmatch], getattr(one, 'uid', repr(one)), t)
            return _fin(res)
        w2, comps2, procs2 = build_world()
        before = [p.uid for p in w2.processors]
        removed = w2.remove_processor(proc_classes[t])
        after = [p.uid for p in w2.processors]
        res.stats['queries_checked'] += 1
        if not pmatch:
            good = removed is None and before == after
            exp = 'nothing removed'
        else:
            legal = [t] if t in procs2 else pmatch
            good = (removed is not None
                    and any(removed is procs2[k] for k in legal)
                    and after == [u for u in before if u != removed.uid])
            exp = f'exactly one of {["D%d" % k for k in legal]} detached'
        if not good:
            fail('remove_processor', f'remove_processor(D{t})', exp,
                 {'returned': getattr(removed, 'uid', repr(removed)),
                  'before': before, 'after': after}, t)
            return _fin(res)
        if multi and any(paths[t][x] >= 2 for x in populated):
            res.nontrivial = True
            res.stats['queries_with_multipath_match'] += 1
    # ---- the universal bases: every component is an instance of the
    # harness root class and of object, every processor of desper.Processor
    for label, T in (('CRoot', CRoot), ('object', object)):
        want = collections.Counter((e, c.uid) for e, row in comps
                                   for c in row.values())
        try:
            got = collections.Counter((e, c.uid) for e, c in w.get(T))
            res.stats['queries_checked'] += 1
            res.stats['universal_base_queries'] += 1
            if got != want:
                fail('get-multiplicity', f'get({label}) does not list every '
                     'component exactly once',
                     sorted(map(str, want.elements())),
                     sorted(map(str, got.elements())), -1)
                return _fin(res)
            for e, row in comps[:2]:
                sentinel = object()
                one = w.get_component(e, T, sentinel)
                has = w.has_component(e, T)
                if has != bool(row) or not (
                        any(one is c for c in row.values()) if row
                        else one is sentinel):
                    fail('get_component', f'has_component/get_component('
                         f'{e}, {label})', [c.uid for c in row.values()],
                         [has, getattr(one, 'uid', repr(one))], -1)
                    return _fin(res)
                w2, comps2, procs2 = build_world()
                e2, row2 = comps2[[x[0] for x in comps].index(e)]
                removed = w2.remove_component(e2, T)
                left = [c.uid for c in w2.get_components(e2)]
                if not any(removed is c for c in row2.values()) \
                        or sorted(left + [removed.uid], key=str) != sorted(
                            (c.uid for c in row2.values()), key=str):
                    fail('remove_component', f'remove_component({e}, '
                         f'{label})', 'exactly one component detached',
                         {'returned': getattr(removed, 'uid', repr(removed)),
                          'left': left}, -1)
                    return _fin(res)
            one = w.get_processor(T) if T is object \
                else w.get_processor(desper.Processor)
            if not (any(one is q for q in procs.values()) if procs
                    else one is None):
                fail('get_processor', f'get_processor({label}/Processor)',
                     sorted(procs), getattr(one, 'uid', repr(one)), -1)
                return _fin(res)
        except Exception as ex:
            fail('query-raised', f'a query by {label} raised', None,
                 repr(ex), -1)
            return _fin(res)
    # ---- builtin objects as components (None included): a query by object
    # matches them all, and each remove_component detaches exactly one
    wb = desper.World()
    # a bare object() among other components, not the first one attached:
    # a query by `object` matches them all and prefers the exact type
    tag = object()
    others = [7, 'y', CRoot()][:1 + len(dag) % 3]
    et = wb.create_entity(*others, tag)
    try:
        one = wb.get_component(et, object)
        res.stats['queries_checked'] += 1
        if one is not tag:
            fail('get_component-exact-first', 'get_component(e, object) on '
                 'an entity holding a bare object() besides '
                 f'{[type(o).__name__ for o in others]}', 'the object() '
                 'instance (exactly the queried type)', repr(one), -2)
            return _fin(res)
        gone = wb.remove_component(et, object)
        res.stats['queries_checked'] += 1
        if gone is not tag or len(wb.get_components(et)) != len(others):
            fail('remove_component', 'remove_component(e, object) on that '
                 'entity', 'the object() instance detached, nothing else',
                 [repr(gone), len(wb.get_components(et))], -2)
            return _fin(res)
    except Exception as ex:
        fail('query-raised', 'queries by `object` raised', None, repr(ex), -2)
        return _fin(res)
    builtin = [None, 5, 'x', 2.5, CRoot()][:2 + len(dag) % 4]
    eb = wb.create_entity(*builtin)
    try:
        for _ in range(len(builtin) + 1):
            before = list(wb.get_components(eb))
            if not before:
                break
            wb.remove_component(eb, object)
            after = list(wb.get_components(eb))
            res.stats['queries_checked'] += 1
            res.stats['builtin_component_removals'] += 1
            if len(before) - len(after) != 1:
                fail('remove_component', 'remove_component(e, object) on an '
                     'entity made of builtin objects', 'exactly one object '
                     'detached', {'before': list(map(repr, before)),
                                  'after': list(map(repr, after))}, -2)
                return _fin(res)
    except Exception as ex:
        fail('query-raised', 'remove_component(e, object) on builtin '
             'components raised', None, repr(ex), -2)
        return _fin(res)
    # ---- a query type the component classes are only REGISTERED with (abc
    # virtual subclasses): whether they match is left open ("subclass"),
    # but has_component, get_component and get give ONE answer
    import abc
    virt = abc.ABCMeta('Virtual', (), {})
    for k, cls in enumerate(comp_classes):
        if k % 2 == 0:
            try:
                virt.register(cls)
            except TypeError:
                pass
    try:
        listed = {repr(x) for x, _ in w.get(virt)}
        for e, row in comps:
            missing = object()
            answers = (w.has_component(e, virt),
                       w.get_component(e, virt, missing) is not missing,
                       repr(e) in listed)
            res.stats['queries_checked'] += 3
            if len(set(answers)) != 1:
                fail('virtual-subclass-queries-disagree', 'has_component / '
                     f'get_component / get for entity {e!r} and a type its '
                     'components are virtual subclasses of', 'one answer',
                     list(answers), -3)
                return _fin(res)
    except Exception as ex:
        fail('query-raised', 'a query by an abstract base class raised', None,
             repr(ex), -3)
        return _fin(res)
    # ---- churn: attach / replace / detach components after the queries
    # above, then every get(T) again (query results must not go stale)
    for ei, k, *how in case.get('churn', []):
        if ei >= len(comps) or k >= n:
            continue            # (a shrunk case)
        e, row = comps[ei]
        if how == ['over']:
            c = comp_classes[k]()
            c.uid = (ei, k, 'over', res.stats['churn_ops'])
            got_id = w.create_entity(c, entity_id=e)
            if got_id != e:
                fail('create-over-id', 'create_entity(c, entity_id=e) '
                     'returned another identifier', e, got_id, k)
                return _fin(res)
            row[k] = c
            res.stats['components_given_again_by_create_entity'] += 1
        elif k in row:
            w.remove_component(e, comp_classes[k])
            del row[k]
        else:
            c = comp_classes[k]()
            c.uid = (ei, k, 'churn')
            w.add_component(e, c)
            row[k] = c
        res.stats['churn_ops'] += 1
        for t in range(n):
            want = collections.Counter(
                (x, c.uid) for x, r in comps for kk, c in r.items()
                if isinstance(kk, int) and sub(comp_classes, kk, t))
            got = collections.Counter(
                (x, c.uid) for x, c in w.get(comp_classes[t]))
            res.stats['queries_checked'] += 1
            if got != want:
                fail('get-after-churn', f'get(D{t}) after components of '
                     f'D{k} were attached/detached', len(want),
                     sorted(map(str, (got - want) + (want - got)))[:6], t)
                return _fin(res)
    # ---- classes defined after the world was already queried
    for li, bases in enumerate(case.get('late', [])):
        try:
            late = type(f'Late{li}', tuple(comp_classes[b] for b in bases),
                        {})
        except TypeError:
            continue
        obj = late()
        obj.uid = ('late', li)
        e = w.create_entity(obj)
        comps.append((e, {('late', li): obj}))
        res.stats['late_classes'] += 1
        for t in range(n):
            want = collections.Counter(
                (x, c.uid) for x, row in comps for k, c in row.items()
                if issubclass(type(c), comp_classes[t]))
            got = collections.Counter(
                (x, c.uid) for x, c in w.get(comp_classes[t]))
            res.stats['queries_checked'] += 3
            if got != want:
                fail('get-late-subclass', f'get(D{t}) after a new subclass '
                     'was defined and populated',
                     sorted(map(str, want.elements())),
                     sorted(map(str, got.elements())), t)
                return _fin(res)
            match = issubclass(late, comp_classes[t])
            if w.has_component(e, comp_classes[t]) != match or (
                    w.get_component(e, comp_classes[t]) is obj) != match:
                fail('late-subclass-single', f'has/get_component(D{t}) for a '
                     'component of a late subclass', match, not match, t)
                return _fin(res)
    return _fin(res)


def _fin(res, *_):
    res.sample = {'queries': res.stats['queries_checked']}
    return res


def shrink(case):
    if case.get('mode') == 'diamonds':
        if case['k'] > 2:
            yield dict(case, k=case['k'] - 1)
        return
    dag = case['dag']
    n = len(dag)
    # drop the last class
    if n > 1:
        k = n - 1
        yield dict(case, dag=dag[:k],
                   entities=[[c for c in e if c < k] or [0]
                             for e in case['entities']],
                   procs=[c for c in case['procs'] if c < k] or [0])
    for i in range(len(case['entities'])):
        if len(case['entities']) > 1:
            yield dict(case, entities=case['entities'][:i]
                       + case['entities'][i + 1:])
    for i, e in enumerate(case['entities']):
        for j in range(len(e)):
            if len(e) > 1:
                ents = [list(x) for x in case['entities']]
                del ents[i][j]
                yield dict(case, entities=ents)
    for i, b in enumerate(dag):
        for j in range(len(b)):
            d = [list(x) for x in dag]
            del d[i][j]
            yield dict(case, dag=d)


def classify(case, div):
    if div['kind'] == 'get-multiplicity':
        return 'diamond-visited-twice'
    return None
