"""C01 - World queries always agree on who owns which component."""
import collections
import random

from vf import session
from vf.core import Res
from vf import worldlib as wl

ID = 'C01'
LEVEL = 'exploration'
RULE = ('random histories of create_entity (0-3 components, automatic or '
        'explicit id, explicit ids may name existing entities), add_component '
        '(often a replacement), remove_component (exact or base type), '
        'deferred/immediate delete_entity, process, clear over 3-8 plain '
        'component classes (single inheritance, depth<=3) and 3-8 entity ids '
        '(ints that collide with automatic ids, strings, tuples, 1.0/True '
        'aliases). After EVERY operation a full query sweep (get(T) for every '
        'class and the root, get_components/has_component/get_component/'
        'entity_exists for every id ever mentioned plus two unused ids, '
        'entities) is compared with a dict-based reference model. '
        'Non-trivial = >=3 mutating ops of >=2 kinds on one entity and at '
        'least one of {replacement, explicit and automatic ids mixed, '
        'operation on an entity awaiting deletion}.'
        " Rounds 9-13 added: the answer of get() is treated as the caller's"
        ' own list (emptied/reordered after reading); a query type the'
        ' classes are only abc-registered with (the three query forms must'
        ' agree); the table invariants also evaluated from inside'
        " on_add/on_remove of the game sessions; the repository's own 111"
        ' tests run under the invariants (vf/suite_monitor.py).'
        ' Round 14 added: a description populated into a world in use'
        ' (shared with C15).')
ANCHORS = [
    'desper/logic/world.py::World.create_entity',
    'desper/logic/world.py::World.add_component',
    'desper/logic/world.py::World.remove_component',
    'desper/logic/world.py::World.delete_entity',
    'desper/logic/world.py::World._clear_dead_entities',
    'desper/logic/world.py::World.clear',
    'desper/logic/world.py::World.has_component',
    'desper/logic/world.py::World.entity_exists',
    'desper/logic/world.py::World._get',
    'desper/logic/world.py::World.get_component',
    'desper/logic/world.py::World.get_components',
]
MIN_NONTRIVIAL = {'quick': 200, 'thorough': 5000}
MIN_STATS = {'query_comparisons': 100000}
ASSUMPTIONS = [
    "don't-care: an id whose row vanished while its deletion was pending and "
    "that is populated again before the next process(): only entity_exists/"
    "entities membership of that id is left unjudged until that process()",
    'delete_entity is only issued for ids that own components (docstring '
    'precondition); create_entity() without components creates nothing',
]

WEIGHTS = {'create': 22, 'add': 26, 'remove': 16, 'delete': 10,
           'delete_now': 6, 'process': 12, 'clear': 3, 'newclass': 2}


def gen_one(rng, tier):
    big = tier == 'thorough' and rng.random() < 0.5
    case = {'classes': wl.gen_classes(rng, rng.randint(3, 8 if big else 6),
                                      ('',)),
            'ids': wl.gen_ids(rng, rng.randint(3, 7 if big else 5)),
            # id_generator_factory: default count(1), or custom generators
            # whose values collide with the explicit id pool
            'idgen': rng.choice([None, None, None, 'count3', 'letters']),
            'ops': []}
    wl.gen_ops(rng, case, rng.randint(1, 80 if big else 40), WEIGHTS)
    return case


def gen_scale(rng):
    """Many entities, types and operations (size-dependent code paths)."""
    case = {'classes': wl.gen_classes(rng, 14, ('',), depth=4),
            'ids': list(range(1, 40)) + [f'id{i}' for i in range(40)]
            + [['t', i] for i in range(20)],
            'idgen': rng.choice([None, 'count3']), 'sweep_every': 25,
            'ops': []}
    weights = dict(WEIGHTS, create=40, add=30, clear=0.3, process=6)
    wl.gen_ops(rng, case, 700, weights)
    # query (sweep), deferred deletions, process, query again - with nothing
    # else in between
    ops = case['ops']
    for pos in sorted(rng.sample(range(150, 700), 10), reverse=True):
        burst = [['process', 1]] + [
            ['delete', ['x', rng.randrange(len(case['ids']))], False]
            for _ in range(6)] + [['delete', ['a', rng.randrange(4)], False],
                                  ['process', 1]]
        ops[pos:pos] = burst
    return case


def gen_stale(rng):
    """A deferred deletion requested for an id that owns nothing at that
    moment, followed by the creation of an entity under that id."""
    return {'scenario': 'stale-mark',
            'how': rng.choice(['never_existed', 'after_immediate',
                               'from_on_remove', 'after_removals']),
            'id': rng.choice([1, 2, 'player', 0, ('t', 1)]),
            'recreate': rng.choice(['create', 'add', 'auto']),
            'ncomp': rng.randint(1, 3), 'frames': rng.randint(1, 3)}


def run_stale(case):
    from vf import import_desper
    desper = import_desper()
    res = Res()
    w = desper.World()
    eid = case['id'] if not isinstance(case['id'], list) \
        else tuple(case['id'])

    class A:
        pass

    class B:
        pass

    class Own(desper.Controller):
        def on_remove(self, entity, world):
            if case['how'] == 'from_on_remove':
                self.delete()       # "when I go, my entity goes"
    Own = desper.event_handler('on_remove')(Own)
    kinds = [Own, A, B][:case['ncomp']] if case['how'] == 'from_on_remove' \
        else [A, B, Own][:case['ncomp']]
    how = case['how']
    if how == 'never_existed':
        w.delete_entity(eid)
    else:
        # the handler component is listed last so that it is detached last
        comps = [k() for k in kinds if k is not Own] + (
            [Own()] if Own in kinds else [])
        w.create_entity(*comps, entity_id=eid)
        if how == 'after_removals':
            for c in comps:
                w.remove_component(eid, type(c))
            w.delete_entity(eid)
        else:
            w.delete_entity(eid, immediate=True)
            if how == 'after_immediate':
                w.delete_entity(eid)
    if w.get_components(eid):
        res.div(0, 'stale-setup', 'the entity was not emptied', [],
                [type(c).__name__ for c in w.get_components(eid)])
        return res
    fresh = A()
    if case['recreate'] == 'create':
        w.create_entity(fresh, entity_id=eid)
        new_id = eid
    elif case['recreate'] == 'add':
        w.add_component(eid, fresh)
        new_id = eid
    else:
        if eid != 1 or how == 'never_existed' and False:
            pass
        new_id = w.create_entity(fresh)
    res.stats['stale_mark_scenarios'] += 1
    res.tags['stale_mark_shape'].add((how, case['recreate']))

    def consistent(at):
        listed = new_id in w.entities
        exists = w.entity_exists(new_id)
        owns = any(c is fresh for c in w.get_components(new_id))
        got = any(e == new_id and c is fresh for e, c in w.get(A))
        if not (listed and exists and owns and got):
            res.div(at, 'fresh-entity-awaiting-deletion', 'an entity created '
                    'after a deletion request that named no entity (the id '
                    'owned nothing then) is reported as not existing / is '
                    'destroyed by the next process()',
                    {'entities': True, 'entity_exists': True,
                     'get_components': True, 'get': True},
                    {'entities': listed, 'entity_exists': exists,
                     'get_components': owns, 'get': got},
                    id=repr(new_id))
            return False
        return True
    if not consistent(1):
        return res
    for f in range(case['frames']):
        try:
            w.process(1)
        except KeyError:
            if case['recreate'] == 'auto' and new_id != eid:
                # the request for the id that never got an entity is the
                # suite's "unknown id" case: one failing frame is allowed
                res.stats['dontcare_unknown_id_frame'] += 1
                continue
            res.div(2 + f, 'process-raised', 'process() raised KeyError '
                    'although the only deletion request named an id that '
                    'has since been given a new entity', 'no exception',
                    'KeyError')
            return res
        if not consistent(2 + f):
            return res
    res.nontrivial = True
    return res


def gen_cases(tier, seed):
    # the repository's own tests as a workload (vf/suite_monitor.py)
    yield {'scenario': 'suite'}
    # whole "game sessions" (vf/session.py): the features used together,
    # judged by the self-consistency invariants of this property
    for i in range(150 if tier == 'quick' else 16 * 300):
        yield session.gen(random.Random(f'C01/session/{seed}/{tier}/{i}'),
                          tier)
    for i in range(120 if tier == 'quick' else 16 * 300):
        yield gen_stale(random.Random(f'C01/stale/{seed}/{tier}/{i}'))
    # automatic identifiers drawn by populate_world_from_dict in a world
    # that is in use (scenario shared with C15, see vf/props/c15.py)
    from vf.props import c15
    for i in range(150 if tier == 'quick' else 16 * 300):
        yield dict(c15.gen_prepop(
            random.Random(f'C01/prepop/{seed}/{tier}/{i}')),
            scenario='prepopulated')
    for i in range(3 if tier == 'quick' else 48):
        yield gen_scale(random.Random(f'C01/scale/{seed}/{tier}/{i}'))
    n = 2400 if tier == 'quick' else 16 * 6000
    for i in range(n):
        yield gen_one(random.Random(f'C01/{seed}/{tier}/{i}'), tier)


class C01Driver(wl.Driver):
    def make_world(self):
        import itertools
        kind = self.case.get('idgen')
        if kind == 'count3':
            return self.desper.World(lambda: itertools.count(3))
        if kind == 'letters':
            return self.desper.World(lambda: iter(
                ['e', 'f', ('t', 1), 2, 1] + [f'g{i}' for i in range(200)]))
        return self.desper.World()

    def __init__(self, case, res):
        super().__init__(case, res)
        self.touch = collections.defaultdict(list)    # id -> [op kinds]
        self.flags = collections.defaultdict(set)
        self.explicit_used = False

    def after_op(self, at, rec):
        res, m, w = self.res, self.model, self.world
        op = rec['op']
        if rec['exc'] is not None:
            res.div(at, 'operation-raised', f'{op[0]} raised '
                    f'{type(rec["exc"]).__name__}: {rec["exc"]}',
                    expected='no exception', observed=repr(rec['exc']),
                    op=op)
            return
        # bookkeeping for the non-triviality rule
        e = rec.get('entity')
        if op[0] in ('create', 'add', 'remove', 'delete') and e is not None:
            self.touch[e].append(op[0] + str(op[2]) if op[0] == 'delete'
                                 else op[0])
            note = rec['note']
            if note.get('replaces') or note.get('over_existing'):
                self.flags[e].add('replacement')
            if note.get('on_pending') or note.get('was_pending'):
                self.flags[e].add('pending')
            if op[0] == 'create':
                if op[2] is None and self.explicit_used:
                    self.flags[e].add('mixed')
                if op[2] is not None:
                    self.explicit_used = True
                    if self.autos:
                        self.flags[e].add('mixed')

        if op[0] == 'create' and op[2] is None and rec['note']['auto_taken']:
            res.div(at, 'auto-id-collision', 'create_entity() returned an '
                    'automatic id naming an entity that already owns '
                    'components', expected='an id with no components',
                    observed=rec['ret'])
            return
        if op[0] == 'remove':
            got = rec['ret']
            if rec['exact'] is not None:
                legal = [rec['exact']]
            else:
                legal = rec['candidates']
            uid = getattr(got, 'uid', None) if got is not None else None
            if (not legal and got is not None) or (legal and uid not in legal):
                res.div(at, 'remove-returned', 'remove_component returned an '
                        'object other than the matching attached component '
                        '(exact type first)', expected=legal, observed=uid)
                return
        every = self.case.get('sweep_every', 1)
        if every == 1 or at % every == 0 or op[0] in ('process', 'clear') \
                or at == len(self.case['ops']) - 1:
            self.sweep(at)
            if every > 1:
                self.res.tags['scale_entities'].add(
                    min(len(self.model.rows) // 10 * 10, 200))

    def sweep(self, at):
        res, m, w = self.res, self.model, self.world
        types = self.classes + [self.root]
        n = 0
        # get(T)
        for t in types:
            want = collections.Counter(
                (e, c.uid) for e, row in m.rows.items()
                for ct, c in row.items() if issubclass(ct, t))
            try:
                got_list = w.get(t)
                got = collections.Counter((e, c.uid) for e, c in got_list)
            except Exception as ex:
                res.div(at, 'query-raised', f'get({t.__name__}) raised',
                        expected=sorted(map(str, want)), observed=repr(ex))
                return
            n += 1
            if got != want:
                res.div(at, 'get-mismatch', f'get({t.__name__}) disagrees '
                        'with the attached components',
                        expected=sorted(map(str, want.elements())),
                        observed=sorted(map(str, got.elements())))
                return
            # the answer is the caller's own list: a client that empties or
            # reorders it must not change what the world answers next time
            if isinstance(got_list, list) and got_list:
                if at % 2:
                    del got_list[:]
                else:
                    got_list.reverse()
                    got_list.pop()
                res.stats['returned_lists_mutated_by_client'] += 1
        ids = list(self.mentioned) + [('ghost', 0), ('ghost', 1)]
        for e in ids:
            row = m.rows.get(e, {})
            try:
                comps = w.get_components(e)
                got = collections.Counter(c.uid for c in comps)
                want = collections.Counter(c.uid for c in row.values())
                n += 1
                if got != want:
                    res.div(at, 'get_components-mismatch',
                            f'get_components({e!r})',
                            expected=sorted(want.elements()),
                            observed=sorted(got.elements()))
                    return
                for t in types:
                    match = [c for ct, c in row.items() if issubclass(ct, t)]
                    has = w.has_component(e, t)
                    n += 1
                    if has != bool(match):
                        res.div(at, 'has_component-mismatch',
                                f'has_component({e!r}, {t.__name__})',
                                expected=bool(match), observed=has)
                        return
                    sentinel = object()
                    one = w.get_component(e, t, sentinel)
                    n += 1
                    if not match:
                        good = one is sentinel
                    elif t in row:
                        good = one is row[t]
                    else:
                        good = any(one is c for c in match)
                    if not good:
                        res.div(at, 'get_component-mismatch',
                                f'get_component({e!r}, {t.__name__})',
                                expected=[c.uid for c in match],
                                observed=getattr(one, 'uid', repr(one)))
                        return
                if e in m.fuzzy:
                    res.stats['dontcare_fuzzy_existence'] += 1
                    continue
                exists = w.entity_exists(e)
                n += 1
                want_exists = e in m.rows and e not in m.pending
                if exists != want_exists:
                    res.div(at, 'entity_exists-mismatch',
                            f'entity_exists({e!r})', expected=want_exists,
                            observed=exists)
                    return
            except Exception as ex:
                res.div(at, 'query-raised', f'a query on entity {e!r} raised',
                        expected='no exception', observed=repr(ex))
                return
        # a query type that some component classes are only REGISTERED
        # with (abc virtual subclasses): whether those match is left open,
        # but the queries must agree with each other
        virt = getattr(self, 'virtual', None)
        if virt is None:
            import abc
            virt = self.virtual = abc.ABCMeta('Virtual', (), {})
            for k, cls in enumerate(self.classes):
                if k % 2 == 0:
                    try:
                        virt.register(cls)
                    except TypeError:
                        pass
        try:
            listed = {repr(e) for e, _ in w.get(virt)}
            for e in ids:
                sentinel = object()
                answers = (w.has_component(e, virt),
                           w.get_component(e, virt, sentinel) is not sentinel,
                           repr(e) in listed)
                n += 1
                if len(set(answers)) != 1:
                    res.div(at, 'virtual-subclass-queries-disagree',
                            f'has_component / get_component / get for entity '
                            f'{e!r} and a type its components are virtual '
                            'subclasses of', 'one answer', list(answers))
                    return
        except Exception as ex:
            res.div(at, 'query-raised', 'a query by an abstract base class '
                    'raised', expected='no exception', observed=repr(ex))
            return
        try:
            ents = list(w.entities)
        except Exception as ex:
            res.div(at, 'query-raised', 'entities raised',
                    expected='no exception', observed=repr(ex))
            return
        want = [e for e in m.alive() if e not in m.fuzzy]
        got = [e for e in ents if e not in m.fuzzy]
        n += 1
        if len(got) != len(set(got)) or set(got) != set(want):
            res.div(at, 'entities-mismatch', 'entities', expected=want,
                    observed=got)
            return
        res.stats['query_comparisons'] += n
        res.stats['sweeps'] += 1
        res.tags['abstract_state'].add(
            (len(m.rows), len(m.pending), len(m.fuzzy),
             sum(len(r) for r in m.rows.values())))

    def finish(self, at):
        for e, kinds in self.touch.items():
            if len(kinds) >= 3 and len(set(kinds)) >= 2 and self.flags[e]:
                self.res.nontrivial = True
                for flag in self.flags[e]:
                    self.res.tags['nontrivial_reason'].add(flag)


def run_case(case):
    if case.get('scenario') == 'suite':
        from vf import suite_monitor
        return suite_monitor.run_suite(ID)
    if case.get('scenario') == 'session':
        return session.run(case, 'C01')
    if case.get('scenario') == 'stale-mark':
        return run_stale(case)
    if case.get('scenario') == 'prepopulated':
        from vf.props import c15
        return c15.run_prepop(case)
    res = Res()
    driver = C01Driver(case, res)
    driver.run()
    res.sample = {'ops_executed': res.stats['ops'],
                  'final_rows': {repr(e): sorted(c.uid for c in row.values())
                                 for e, row in driver.model.rows.items()},
                  'pending': sorted(map(repr, driver.model.pending))}
    return res


def classify(case, div):
    if div['kind'] == 'auto-id-collision':
        return 'auto-id-collides-with-explicit-id'
    return None
