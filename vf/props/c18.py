"""C18 - Vector and matrix operations compute their textbook definitions.

Randomised identity testing of the REAL operators on exact rationals
(fractions.Fraction entries flow through the unmodified tuple classes), plus
exhaustive swizzles, region-targeted sampling of the piecewise operations and
a float tier with a stated tolerance.  This is sampling with a quantified
error bound (Schwartz-Zippel), not a proof.
"""
import itertools
import math
import random
import warnings
from fractions import Fraction

from vf import import_desper
from vf.core import Res

ID = 'C18'
LEVEL = 'exploration'
RULE = ('each case evaluates one identity at one point. Exact tier: entries '
        'uniform in {p/q: |p|<=10^6, 1<=q<=10^3} or from small adversarial '
        'sets ({0,+-1,+-1/2,2}, sparse, permutation, triangular matrices, '
        'identity plus one off-diagonal entry at each position), compared '
        'with textbook definitions written with nested loops (entry-wise + - '
        '* /, neg, sum(), dot, cross, lerp, scale, clamp, Mat3/Mat4 @ as '
        'row-by-column product, associativity, default matrix neutral, '
        '(A@B)@v == B@(A@v), Mat@Vec, transpose, A@~A == ~A@A == I when the '
        'Laplace determinant is non-zero, singular => same object + warning, '
        'limit on squared lengths, translate/from_translation/from_scale). '
        'Swizzles: every string of length 2-4 over the component letters of '
        'each class on distinct tokens, and invalid strings must raise '
        'AttributeError (exhaustive). Float tier (|x| in 1e-3..1e6, angles in '
        '[-4pi,4pi]): normalize, from_magnitude, from_heading, from_polar, '
        'rotate, mag/distance/heading, limit, orthogonal_projection within 64 '
        'ulp relative / 1e-9 absolute; exactly singular Mat4 of ordinary '
        'floats (tenths and eighths; identical rows, a doubled row, a zero '
        'column) => unchanged + warning. Non-trivial = matrices with all '
        'entries non-zero and pairwise distinct / vectors without zero '
        'component / every piecewise region.'
        ' Round 13 added: affine, transposed-affine and block-diagonal'
        ' matrices for the inverse.'
        ' Round 14 added: tiny regular determinants.')
ANCHORS = [
    'desper/math.py::clamp',
    'desper/math.py::Vec2.__add__', 'desper/math.py::Vec2.lerp',
    'desper/math.py::Vec2.limit', 'desper/math.py::Vec2.normalize',
    'desper/math.py::Vec2.rotate', 'desper/math.py::Vec2.__getattr__',
    'desper/math.py::Vec3.cross', 'desper/math.py::Vec3.limit',
    'desper/math.py::Vec3.__getattr__', 'desper/math.py::Vec4.dot',
    'desper/math.py::Vec4.__getattr__',
    'desper/math.py::Mat3.__matmul__', 'desper/math.py::Mat4.__matmul__',
    'desper/math.py::Mat4.__invert__', 'desper/math.py::Mat4.transpose',
    'desper/math.py::Mat4.translate', 'desper/math.py::Mat4.from_translation',
    'desper/math.py::Mat4.from_scale',
    'desper/math.py::Mat4.orthogonal_projection',
]
MIN_NONTRIVIAL = {'quick': 2000, 'thorough': 50000}
MIN_STATS = {'identities_checked': 5000, 'swizzle_strings_checked': 400}
EXHAUSTIVE = {'quick': 'swizzle strings only (every string of length 2-4 over '
                       'the component letters of Vec2/Vec3/Vec4, all strings '
                       'of length 1-5 over xyzw+a that must raise)',
              'thorough': 'swizzle strings only'}
ASSUMPTIONS = [
    'exact tier: a wrong implementation that is still polynomial of degree d '
    'agrees with the right one at a uniformly random grid point with '
    'probability <= d/N (Schwartz-Zippel), N >= 6*10^8 distinct rationals; '
    'the evidence reports d and the number of trials t per identity',
    "don't-care: negative magnitudes for from_magnitude/limit; "
    'perspective_projection, look_at, Mat4.rotate, Mat3 scale/translate/'
    'rotate/shear (not in the statement); overflow/NaN inputs',
    'float tolerance: 64 ulp relative or 1e-9 absolute, whichever is larger',
    'identity-neutrality and translate/from_scale compared on dyadic inputs '
    '(the library mixes in float constants)',
]

DEGREE = {'vec_arith': 2, 'vec_dot': 2, 'vec_cross': 2, 'vec_lerp': 2,
          'vec_scale': 2, 'vec_sum': 1, 'mat_arith': 1, 'mat_matmul': 2,
          'mat_assoc': 3, 'mat_identity': 2, 'mat_vec': 2, 'mat_vec_assoc': 3,
          'mat_transpose': 1, 'mat_inverse': 4, 'mat_translate': 2}

EXACT = ['vec_arith', 'vec_dot', 'vec_cross', 'vec_lerp', 'vec_scale',
         'vec_sum', 'vec_clamp', 'vec_limit', 'mat_arith', 'mat_matmul',
         'mat_assoc', 'mat_identity', 'mat_vec', 'mat_vec_assoc',
         'mat_transpose', 'mat_inverse', 'mat_singular', 'mat_translate']
FLOAT = ['f_normalize', 'f_from_magnitude', 'f_from_heading', 'f_from_polar',
         'f_rotate', 'f_mag_distance', 'f_limit', 'f_ortho',
         'f_mat_singular']


# ---- number encoding (cases are JSON) ----------------------------------

def enc(x):
    if isinstance(x, Fraction):
        return ['F', x.numerator, x.denominator]
    return x


def dec(x):
    if isinstance(x, list) and x and x[0] == 'F':
        return Fraction(x[1], x[2])
    if isinstance(x, list):
        return [dec(i) for i in x]
    return x


SMALL = [Fraction(0), Fraction(1), Fraction(-1), Fraction(1, 2),
         Fraction(-1, 2), Fraction(2)]


def rat(rng):
    if rng.random() < 0.8:
        return Fraction(rng.randint(-10 ** 6, 10 ** 6), rng.randint(1, 1000))
    return rng.choice(SMALL)


def nzrat(rng):
    while True:
        x = rat(rng)
        if x != 0:
            return x


def dyadic(rng):
    return Fraction(rng.randint(-4096, 4096), 64)


def gvec(rng, n, gen=rat):
    return [gen(rng) for _ in range(n)]


def gmat(rng, n, gen=rat):
    k = rng.random()
    size = n * n
    if k < 0.62:
        return [gen(rng) for _ in range(size)]
    if k < 0.7:
        # well-conditioned but tiny (or huge) determinant: every entry of a
        # small-integer matrix scaled by the same factor
        f = Fraction(1, rng.choice([50, 200, 1000])) if rng.random() < 0.7 \
            else Fraction(rng.choice([300, 5000]))
        if gen is dyadic:
            f = Fraction(1, rng.choice([64, 256, 1024]))
        return [Fraction(rng.randint(-9, 9)) * f for _ in range(size)]
    if k < 0.78:                                # sparse
        return [gen(rng) if rng.random() < 0.3 else Fraction(0)
                for _ in range(size)]
    if k < 0.84:                                # permutation (scaled)
        perm = list(range(n))
        rng.shuffle(perm)
        m = [Fraction(0)] * size
        for i, j in enumerate(perm):
            m[i * n + j] = rng.choice([Fraction(1), gen(rng)])
        return m
    if k < 0.92:                                # triangular
        upper = rng.random() < 0.5
        return [gen(rng) if (j >= i if upper else j <= i) else Fraction(0)
                for i in range(n) for j in range(n)]
    m = [Fraction(int(i == j)) for i in range(n) for j in range(n)]
    i, j = rng.randrange(n), rng.randrange(n)   # one extra entry
    extra = gen(rng)
    while extra == 0:
        extra = gen(rng)
    m[i * n + j] = m[i * n + j] + extra
    return m


def gen_point(rng, identity):
    n = rng.choice([2, 3, 4])
    mn = rng.choice([3, 4])
    if identity == 'vec_arith':
        op = rng.choice(['add', 'sub', 'mul', 'truediv', 'neg'])
        b = gvec(rng, n, nzrat if op == 'truediv' else rat)
        return {'n': n, 'op': op, 'a': gvec(rng, n), 'b': b}
    if identity in ('vec_dot', 'vec_sum'):
        return {'n': n, 'a': gvec(rng, n), 'b': gvec(rng, n),
                'c': gvec(rng, n)}
    if identity == 'vec_cross':
        return {'a': gvec(rng, 3), 'b': gvec(rng, 3)}
    if identity == 'vec_lerp':
        return {'n': n, 'a': gvec(rng, n), 'b': gvec(rng, n),
                'alpha': rng.choice([rat(rng), Fraction(0), Fraction(1),
                                     Fraction(1, 2)])}
    if identity == 'vec_scale':
        return {'n': n, 'a': gvec(rng, n), 's': rat(rng)}
    if identity == 'vec_clamp':
        lo = rat(rng)
        hi = lo + abs(rat(rng))
        pts = [rng.choice([lo, hi, lo - 1, hi + 1, (lo + hi) / 2, rat(rng)])
               for _ in range(n)]
        return {'n': n, 'a': pts, 'lo': lo, 'hi': hi}
    if identity == 'vec_limit':
        n = rng.choice([2, 3])
        a = gvec(rng, n, lambda r: Fraction(r.randint(-64, 64), 8))
        sq = sum(x * x for x in a)
        region = rng.choice(['inside', 'outside', 'on', 'band', 'mirror',
                             'random'])
        if region == 'on' or sq == 0:
            # a vector of exactly rational length: scaled 3-4-5 / 2-3-6
            base = [Fraction(3), Fraction(4)] if n == 2 else \
                [Fraction(2), Fraction(3), Fraction(6)]
            k = Fraction(rng.randint(1, 40), 8)
            a = [x * k for x in base]
            m = k * (5 if n == 2 else 7)
        elif region == 'inside':
            m = Fraction(math.isqrt(int(sq)) + 1 + rng.randint(0, 5))
        elif region == 'outside':
            m = Fraction(max(0, math.isqrt(int(sq)) - rng.randint(0, 3)), 2)
        elif region == 'band':
            # m^2 < |v|^2 <= m^3 (and its mirror for m < 1)
            m = Fraction(rng.randint(9, 80), 8)
            target = m * m + (m ** 3 - m * m) * Fraction(rng.randint(1, 9), 10)
            a = [Fraction(0)] * n
            a[0] = Fraction(math.isqrt(int(target * 4096)), 64)
        elif region == 'mirror':
            # m < 1: m^3 < |v|^2 <= m^2 (short enough, must stay unchanged)
            m = Fraction(rng.randint(1, 7), 8)
            target = m ** 3 + (m * m - m ** 3) * Fraction(rng.randint(1, 9),
                                                          10)
            a = [Fraction(0)] * n
            a[-1] = Fraction(math.isqrt(int(target * 2 ** 24)), 2 ** 12)
        else:
            m = abs(Fraction(rng.randint(0, 800), 8))
        return {'n': n, 'a': a, 'm': m, 'region': region}
    if identity == 'mat_arith':
        return {'n': mn, 'op': rng.choice(['add', 'sub', 'neg']),
                'a': gmat(rng, mn), 'b': gmat(rng, mn)}
    if identity in ('mat_matmul', 'mat_assoc'):
        return {'n': mn, 'a': gmat(rng, mn), 'b': gmat(rng, mn),
                'c': gmat(rng, mn)}
    if identity == 'mat_identity':
        return {'n': mn, 'a': gmat(rng, mn, dyadic)}
    if identity in ('mat_vec', 'mat_vec_assoc'):
        return {'n': mn, 'a': gmat(rng, mn), 'b': gmat(rng, mn),
                'v': gvec(rng, mn)}
    if identity == 'mat_transpose':
        return {'a': gmat(rng, 4)}
    if identity == 'mat_inverse':
        a = gmat(rng, 4)
        k = rng.random()
        if k < 0.3:
            # affine: last column (0, 0, 0, 1), a general linear part and a
            # translation (the shape a "fast path" would single out)
            a[3] = a[7] = a[11] = Fraction(0)
            a[15] = Fraction(1)
        elif k < 0.45:
            # ... or the transposed layout: last row (0, 0, 0, 1)
            a[12] = a[13] = a[14] = Fraction(0)
            a[15] = Fraction(1)
        elif k < 0.55:
            # block diagonal 2+2
            for i in (0, 1):
                for j in (2, 3):
                    a[i * 4 + j] = a[j * 4 + i] = Fraction(0)
        elif k < 0.7:
            # a tiny but perfectly regular determinant (a world drawn at
            # scale 2**-14): non-singular is non-singular, whatever its size
            shrink = Fraction(1, 2 ** rng.randint(8, 40))
            for i in range(12):
                a[i] = a[i] * shrink
        return {'a': a}
    if identity == 'mat_singular':
        a = gmat(rng, 4)
        k = rng.random()
        i, j = rng.sample(range(4), 2)
        if k < 0.4:                     # two proportional rows
            f = rat(rng)
            for c in range(4):
                a[j * 4 + c] = a[i * 4 + c] * f
        elif k < 0.7:                   # a zero column
            for r in range(4):
                a[r * 4 + i] = Fraction(0)
        else:                           # row j = row i + row of a third
            t = ({0, 1, 2, 3} - {i, j}).pop()
            for c in range(4):
                a[j * 4 + c] = a[i * 4 + c] + a[t * 4 + c]
        return {'a': a}
    if identity == 'mat_translate':
        return {'a': gmat(rng, 4, dyadic), 'v': gvec(rng, 3, dyadic)}
    # ---- float tier
    def fnum():
        return rng.choice([-1, 1]) * 10 ** rng.uniform(-3, 6)

    def angle():
        if rng.random() < 0.3:
            # a small set of favourite angles, revisited again and again
            # between hundreds of other values
            return rng.choice([0.0, math.pi / 2, math.pi, -math.pi / 2,
                               math.pi / 3, 1.0, 2.5, -3.0])
        return rng.uniform(-4 * math.pi, 4 * math.pi)
    if identity in ('f_normalize', 'f_mag_distance'):
        zero = rng.random() < 0.05
        return {'n': n, 'a': [0.0] * n if zero else [fnum() for _ in range(n)],
                'b': [fnum() for _ in range(n)]}
    if identity == 'f_from_magnitude':
        n = rng.choice([2, 3])
        return {'n': n, 'a': [fnum() for _ in range(n)], 'm': abs(fnum())}
    if identity in ('f_from_heading', 'f_rotate'):
        return {'a': [fnum(), fnum()], 'angle': angle()}
    if identity == 'f_from_polar':
        return {'m': abs(fnum()), 'angle': angle()}
    if identity == 'f_limit':
        n = rng.choice([2, 3])
        a = [fnum() for _ in range(n)]
        mag = math.sqrt(sum(x * x for x in a))
        m = mag * rng.choice([0.25, 0.9, 0.999, 1.001, 1.5, 4.0,
                              rng.uniform(0.1, 3)])
        return {'n': n, 'a': a, 'm': m}
    if identity == 'f_mat_singular':
        # exactly singular matrices of ordinary floats (one-decimal values
        # such as 0.1 are not dyadic: products and sums are rounded); 30%
        # use eighths, for which float arithmetic is exact
        den = 8 if rng.random() < 0.3 else 10
        a = [rng.randint(-30, 30) / den for _ in range(16)]
        if rng.random() < 0.3:          # an affine matrix
            a[3], a[7], a[11], a[15] = 0.0, 0.0, 0.0, 1.0
        i, j = rng.sample(range(3), 2)
        k = rng.random()
        if k < 0.5:                     # two identical rows
            a[j * 4:j * 4 + 4] = a[i * 4:i * 4 + 4]
        elif k < 0.7:                   # row j = 2 * row i (exact doubling)
            a[j * 4:j * 4 + 4] = [2 * x for x in a[i * 4:i * 4 + 4]]
        else:                           # a zero column
            for r in range(4):
                a[r * 4 + i] = 0.0
        return {'a': a}
    if identity == 'f_ortho':
        left, bottom, near = fnum(), fnum(), abs(fnum())
        return {'l': left, 'r': left + abs(fnum()), 'b': bottom,
                't': bottom + abs(fnum()), 'n': near, 'f': near + abs(fnum())}
    raise ValueError(identity)


def gen_cases(tier, seed):
    for cls, letters in (('Vec2', 'xy'), ('Vec3', 'xyz'), ('Vec4', 'xyzw')):
        yield {'identity': 'swizzle', 'cls': cls, 'letters': letters}
    t = 400 if tier == 'quick' else 16 * 5000
    for name in EXACT + FLOAT:
        for i in range(t):
            rng = random.Random(f'C18/{seed}/{tier}/{name}/{i}')
            point = gen_point(rng, name)
            yield {'identity': name,
                   'point': {k: (enc(v) if not isinstance(v, list)
                                 else [enc(x) for x in v])
                             for k, v in point.items()}}


# ---- textbook definitions (oracle) --------------------------------------

def o_matmul(a, b, n):
    return [sum(a[i * n + k] * b[k * n + j] for k in range(n))
            for i in range(n) for j in range(n)]


def o_vecmat(v, a, n):
    """Row vector times matrix: what `M @ v` is defined to be (it must make
    (A @ B) @ v == B @ (A @ v) true for the row-by-column product)."""
    return [sum(v[i] * a[i * n + j] for i in range(n)) for j in range(n)]


def o_det(a, n):
    if n == 1:
        return a[0]
    total = 0
    for j in range(n):
        minor = [a[r * n + c] for r in range(1, n) for c in range(n) if c != j]
        total += (-1) ** j * a[j] * o_det(minor, n - 1)
    return total


def o_identity(n):
    return [Fraction(int(i == j)) for i in range(n) for j in range(n)]


def run_case(case):
    desper = import_desper()
    import desper.math as dm
    res = Res()
    name = case['identity']
    if name == 'swizzle':
        swizzles(dm, case, res)
        return res
    p = {k: dec(v) for k, v in case['point'].items()}
    vec = {2: dm.Vec2, 3: dm.Vec3, 4: dm.Vec4}
    mat = {3: dm.Mat3, 4: dm.Mat4}
    res.stats['identities_checked'] += 1
    res.stats['id_' + name] += 1

    def fail(what, expected, observed):
        res.div(0, name, what, expected=[str(x) for x in _flat(expected)],
                observed=[str(x) for x in _flat(observed)],
                point={k: str(v) for k, v in p.items()})

    def eq(got, want, what):
        got, want = list(got), list(want)
        if len(got) != len(want) or any(g != w for g, w in zip(got, want)):
            fail(what, want, got)
            return False
        return True

    def nz(values):
        return all(v != 0 for v in values)

    def distinct_nz(values):
        return nz(values) and len(set(values)) == len(values)

    try:
        with warnings.catch_warnings(record=True) as caught:
            warnings.simplefilter('always')
            _check(name, p, dm, vec, mat, res, fail, eq, nz, distinct_nz,
                   caught)
    except Exception as ex:
        res.div(0, name, f'{name} raised {type(ex).__name__}: {ex}',
                'a value', repr(ex), point={k: str(v) for k, v in p.items()})
    res.sample = {'identity': name,
                  'point': {k: str(v) for k, v in p.items()}}
    return res


def _flat(x):
    if isinstance(x, (list, tuple)):
        return list(x)
    return [x]


def _check(name, p, dm, vec, mat, res, fail, eq, nz, distinct_nz, caught):
    if name == 'vec_arith':
        n, a, b = p['n'], p['a'], p['b']
        A, B = vec[n](*a), vec[n](*b)
        op = p['op']
        if op == 'add':
            eq(A + B, [x + y for x, y in zip(a, b)], 'a + b entry by entry')
        elif op == 'sub':
            eq(A - B, [x - y for x, y in zip(a, b)], 'a - b entry by entry')
        elif op == 'mul':
            eq(A * B, [x * y for x, y in zip(a, b)], 'a * b entry by entry')
        elif op == 'truediv':
            eq(A / B, [x / y for x, y in zip(a, b)], 'a / b entry by entry')
        else:
            eq(-A, [-x for x in a], '-a entry by entry')
        res.nontrivial = nz(a) and nz(b)
        res.tags['vec_op'].add(f'{op}{n}')
    elif name == 'vec_dot':
        n, a, b = p['n'], p['a'], p['b']
        got = vec[n](*a).dot(vec[n](*b))
        want = sum(x * y for x, y in zip(a, b))
        if got != want:
            fail('dot product', want, got)
        res.nontrivial = nz(a) and nz(b)
    elif name == 'vec_sum':
        n = p['n']
        vs = [vec[n](*p[k]) for k in 'abc']
        eq(sum(vs), [x + y + z for x, y, z in zip(p['a'], p['b'], p['c'])],
           'sum() of vectors')
        res.nontrivial = nz(p['a'])
    elif name == 'vec_cross':
        a, b = p['a'], p['b']
        want = [a[1] * b[2] - a[2] * b[1], a[2] * b[0] - a[0] * b[2],
                a[0] * b[1] - a[1] * b[0]]
        got = dm.Vec3(*a).cross(dm.Vec3(*b))
        if eq(got, want, 'cross product'):
            # orthogonality, an independent consequence of the definition
            if sum(x * y for x, y in zip(got, a)) != 0:
                fail('cross product orthogonal to a', 0, 'non-zero')
        res.nontrivial = nz(a) and nz(b)
    elif name == 'vec_lerp':
        n, a, b, al = p['n'], p['a'], p['b'], p['alpha']
        eq(vec[n](*a).lerp(vec[n](*b), al),
           [x + al * (y - x) for x, y in zip(a, b)], 'lerp')
        res.nontrivial = nz(a) and nz(b) and al not in (0, 1)
    elif name == 'vec_scale':
        n, a, s = p['n'], p['a'], p['s']
        eq(vec[n](*a).scale(s), [x * s for x in a], 'scale')
        res.nontrivial = nz(a) and s != 0
    elif name == 'vec_clamp':
        n, a, lo, hi = p['n'], p['a'], p['lo'], p['hi']
        want = [lo if x < lo else hi if x > hi else x for x in a]
        eq(vec[n](*a).clamp(lo, hi), want, 'clamp')
        for x in a:
            if dm.clamp(x, lo, hi) != (lo if x < lo else hi if x > hi else x):
                fail('clamp()', 'clamped', dm.clamp(x, lo, hi))
            res.tags['clamp_region'].add(
                'below' if x < lo else 'above' if x > hi else
                'on' if x in (lo, hi) else 'inside')
        res.nontrivial = True
    elif name == 'vec_limit':
        n, a, m = p['n'], p['a'], p['m']
        V = vec[n](*a)
        got = V.limit(m)
        sq = sum(x * x for x in a)
        res.tags['limit_region'].add(
            'on' if sq == m * m else
            ('mirror' if sq > m ** 3 else 'inside') if sq < m * m else
            'band' if sq <= m ** 3 else 'outside')
        if sq <= m * m:
            if got is not V and list(got) != list(a):
                fail('limit(m) must leave a short enough vector unchanged',
                     a, got)
        else:
            gsq = sum(Fraction(x) * Fraction(x) for x in got)
            if gsq > m * m * (1 + Fraction(1, 10 ** 9)):
                fail('limit(m) returned a vector longer than m',
                     f'|v|^2 <= {m * m}', f'|v|^2 = {float(gsq)}')
        res.nontrivial = True
    elif name == 'mat_arith':
        n, a, b, op = p['n'], p['a'], p['b'], p['op']
        A, B = mat[n](a), mat[n](b)
        if op == 'add':
            eq(A + B, [x + y for x, y in zip(a, b)], 'A + B')
        elif op == 'sub':
            eq(A - B, [x - y for x, y in zip(a, b)], 'A - B')
        else:
            eq(-A, [-x for x in a], '-A')
        res.nontrivial = distinct_nz(a)
    elif name == 'mat_matmul':
        n, a, b = p['n'], p['a'], p['b']
        eq(mat[n](a) @ mat[n](b), o_matmul(a, b, n),
           f'Mat{n} @ Mat{n} as row-by-column product')
        res.nontrivial = distinct_nz(a) and distinct_nz(b)
    elif name == 'mat_assoc':
        n = p['n']
        A, B, C = (mat[n](p[k]) for k in 'abc')
        eq((A @ B) @ C, A @ (B @ C), 'associativity of @')
        res.nontrivial = distinct_nz(p['a']) and distinct_nz(p['b'])
    elif name == 'mat_identity':
        n, a = p['n'], p['a']
        A = mat[n](a)
        eq(A @ mat[n](), a, 'A @ default matrix == A')
        eq(mat[n]() @ A, a, 'default matrix @ A == A')
        eq(mat[n](), o_identity(n), 'default matrix is the identity')
        res.nontrivial = distinct_nz(a)
    elif name == 'mat_vec':
        n, a, v = p['n'], p['a'], p['v']
        eq(mat[n](a) @ vec[n](*v), o_vecmat(v, a, n), f'Mat{n} @ Vec{n}')
        res.nontrivial = distinct_nz(a) and nz(v)
    elif name == 'mat_vec_assoc':
        n, a, b, v = p['n'], p['a'], p['b'], p['v']
        A, B, V = mat[n](a), mat[n](b), vec[n](*v)
        eq((A @ B) @ V, B @ (A @ V), '(A @ B) @ v == B @ (A @ v)')
        res.nontrivial = distinct_nz(a) and distinct_nz(b) and nz(v)
    elif name == 'mat_transpose':
        a = p['a']
        T = dm.Mat4(a).transpose()
        eq(T, [a[j * 4 + i] for i in range(4) for j in range(4)],
           'transpose swaps rows and columns')
        eq(T.transpose(), a, 'transpose twice')
        res.nontrivial = distinct_nz(a)
    elif name == 'mat_inverse':
        a = p['a']
        det = o_det(a, 4)
        A = dm.Mat4(a)
        inv = ~A
        if det == 0:
            res.tags['inverse_branch'].add('singular')
            if not (inv is A or list(inv) == list(a)) or not caught:
                fail('singular matrix must be returned unchanged with a '
                     'warning', 'the same matrix + warning',
                     [list(inv) == list(a), len(caught)])
        else:
            res.tags['inverse_branch'].add('regular')
            if inv is A:
                fail('non-singular matrix returned unchanged', 'inverse',
                     'same object')
            else:
                eq(A @ inv, o_identity(4), 'A @ ~A == I')
                eq(inv @ A, o_identity(4), '~A @ A == I')
            if caught:
                fail('warning for a non-singular matrix', 'no warning',
                     str(caught[0].message))
        res.nontrivial = distinct_nz(a)
    elif name == 'mat_singular':
        a = p['a']
        A = dm.Mat4(a)
        if o_det(a, 4) != 0:
            res.stats['singular_generator_missed'] += 1
            return
        inv = ~A
        if not (inv is A or list(inv) == list(a)) or not caught:
            fail('singular matrix must be returned unchanged with a warning',
                 'the same matrix + warning',
                 [list(inv) == list(a), len(caught)])
        res.nontrivial = True
    elif name == 'mat_translate':
        a, v = p['a'], p['v']
        T = [Fraction(int(i == j)) for i in range(4) for j in range(4)]
        T[12:15] = v
        eq(dm.Mat4.from_translation(dm.Vec3(*v)), T, 'from_translation')
        eq(dm.Mat4.from_translation(tuple(v)), T, 'from_translation(tuple)')
        eq(dm.Mat4(a).translate(dm.Vec3(*v)), o_matmul(a, T, 4),
           'translate == M @ from_translation(v)')
        S = [Fraction(0)] * 16
        S[0], S[5], S[10], S[15] = v[0], v[1], v[2], Fraction(1)
        eq(dm.Mat4.from_scale(dm.Vec3(*v)), S, 'from_scale')
        # a translated point: (x, y, z, 1) @ T
        pt = [Fraction(3), Fraction(-2), Fraction(5, 2), Fraction(1)]
        eq(dm.Mat4.from_translation(dm.Vec3(*v)) @ dm.Vec4(*pt),
           [pt[0] + v[0], pt[1] + v[1], pt[2] + v[2], 1],
           'from_translation moves points by v')
        res.nontrivial = distinct_nz(a) and nz(v)
    elif name == 'f_mat_singular':
        a = p['a']
        if o_det([Fraction(x) for x in a], 4) != 0:
            res.stats['singular_generator_missed'] += 1
            return
        A = dm.Mat4(a)
        inv = ~A
        res.tags['float_singular_entries'].add(
            'dyadic' if _short_dyadic(a) else 'non-dyadic')
        if not (inv is A or list(inv) == list(a)) or not caught:
            fail('an exactly singular matrix of floats must be returned '
                 'unchanged with a warning', 'the same matrix + warning',
                 [list(inv) == list(a), len(caught),
                  max(abs(x) for x in inv)])
        res.nontrivial = True
    else:
        _check_float(name, p, dm, vec, res, fail)


def _rel(got, want, scale):
    tol = max(64 * 2.220446049250313e-16 * max(abs(want), abs(scale)), 1e-12
              * abs(scale), 5e-324)
    return abs(got - want) <= tol


def _check_float(name, p, dm, vec, res, fail):
    if name == 'f_normalize':
        n, a = p['n'], p['a']
        V = vec[n](*a)
        got = V.normalize()
        mag = math.sqrt(sum(Fraction(x) ** 2 for x in a))
        if mag == 0:
            if list(got) != list(a):
                fail('normalize of the zero vector stays zero', a, got)
            res.tags['normalize'].add('zero')
        else:
            gm = math.sqrt(sum(x * x for x in got))
            if not _rel(gm, 1.0, 1.0):
                fail('normalize yields a unit vector', 1.0, gm)
            for g, x in zip(got, a):
                if not _rel(g, x / mag, 1.0):
                    fail('normalize keeps the direction', x / mag, g)
                    break
            res.tags['normalize'].add('regular')
        res.nontrivial = all(x != 0 for x in a)
    elif name == 'f_mag_distance':
        n, a, b = p['n'], p['a'], p['b']
        A, B = vec[n](*a), vec[n](*b)
        want = math.sqrt(sum(Fraction(x) ** 2 for x in a))
        if not _rel(abs(A), want, want) or (n < 4 and not _rel(A.mag, want,
                                                              want)):
            fail('mag / abs', want, abs(A))
        wd = math.sqrt(sum((Fraction(y) - Fraction(x)) ** 2
                           for x, y in zip(a, b)))
        if not _rel(A.distance(B), wd, wd):
            fail('distance', wd, A.distance(B))
        if n == 2 and any(a):
            if not _rel(A.heading, math.atan2(a[1], a[0]), math.pi):
                fail('heading', math.atan2(a[1], a[0]), A.heading)
        res.nontrivial = all(x != 0 for x in a)
    elif name == 'f_from_magnitude':
        n, a, m = p['n'], p['a'], p['m']
        got = vec[n](*a).from_magnitude(m)
        mag = math.sqrt(sum(Fraction(x) ** 2 for x in a))
        for g, x in zip(got, a):
            if not _rel(g, x / mag * m, m):
                fail('from_magnitude changes only the magnitude',
                     [x / mag * m for x in a], got)
                break
        res.nontrivial = True
    elif name == 'f_from_heading':
        a, ang = p['a'], p['angle']
        got = dm.Vec2(*a).from_heading(ang)
        mag = math.hypot(*a)
        want = [mag * math.cos(ang), mag * math.sin(ang)]
        if not all(_rel(g, w, mag) for g, w in zip(got, want)):
            fail('from_heading changes only the heading', want, got)
        res.nontrivial = True
    elif name == 'f_from_polar':
        m, ang = p['m'], p['angle']
        got = dm.Vec2.from_polar(m, ang)
        want = [m * math.cos(ang), m * math.sin(ang)]
        if not all(_rel(g, w, m) for g, w in zip(got, want)):
            fail('from_polar', want, got)
        res.nontrivial = True
    elif name == 'f_rotate':
        a, ang = p['a'], p['angle']
        got = dm.Vec2(*a).rotate(ang)
        want = [a[0] * math.cos(ang) - a[1] * math.sin(ang),
                a[0] * math.sin(ang) + a[1] * math.cos(ang)]
        mag = math.hypot(*a)
        if not all(abs(g - w) <= 1e-9 * mag for g, w in zip(got, want)):
            fail('rotate advances the heading by the angle, keeps the length',
                 want, got)
        res.nontrivial = True
    elif name == 'f_limit':
        n, a, m = p['n'], p['a'], p['m']
        V = vec[n](*a)
        got = V.limit(m)
        sq = sum(Fraction(x) ** 2 for x in a)
        msq = Fraction(m) ** 2
        if sq <= msq:
            res.tags['f_limit_region'].add('short')
            if list(got) != list(a):
                fail('limit leaves short enough vectors unchanged', a, got)
        else:
            res.tags['f_limit_region'].add(
                'band' if sq <= Fraction(m) ** 3 else 'long')
            gm = math.sqrt(sum(x * x for x in got))
            if gm > m * (1 + 1e-12):
                fail('limit(m) never returns a vector longer than m', m, gm)
            mag = math.sqrt(sq)
            for g, x in zip(got, a):
                if not _rel(g, x / mag * m, m):
                    fail('limit keeps the direction', x / mag * m, g)
                    break
        res.nontrivial = True
    elif name == 'f_ortho':
        M = dm.Mat4.orthogonal_projection(p['l'], p['r'], p['b'], p['t'],
                                          p['n'], p['f'])
        for (x, y, z), want in (
                ((p['l'], p['b'], -p['n']), (-1, -1, -1)),
                ((p['r'], p['t'], -p['f']), (1, 1, 1)),
                ((p['l'], p['t'], -p['n']), (-1, 1, -1)),
                ((p['r'], p['b'], -p['f']), (1, -1, 1))):
            got = M @ dm.Vec4(x, y, z, 1.0)
            scale = max(abs(x) / (p['r'] - p['l']), abs(y) / (p['t'] - p['b']),
                        abs(z) / (p['f'] - p['n']), 1.0)
            if not all(abs(g - w) <= 1e-12 * scale * 64
                       for g, w in zip(got[:3], want)) or got[3] != 1.0:
                fail('orthogonal_projection maps the corners of the box to '
                     'the corners of the unit cube', want, list(got))
                break
        res.nontrivial = True
    else:
        raise ValueError(name)


def swizzles(dm, case, res):
    cls = getattr(dm, case['cls'])
    letters = case['letters']
    tokens = [Fraction(7 + 10 * i) for i in range(len(letters))]
    v = cls(*tokens)
    target = {2: dm.Vec2, 3: dm.Vec3, 4: dm.Vec4}
    for length in (2, 3, 4):
        for combo in itertools.product(letters, repeat=length):
            s = ''.join(combo)
            res.stats['swizzle_strings_checked'] += 1
            try:
                got = getattr(v, s)
            except Exception as ex:
                res.div(0, 'swizzle', f'{case["cls"]}.{s} raised', 'a vector',
                        repr(ex))
                return
            want = [tokens[letters.index(c)] for c in s]
            if type(got) is not target[length] or list(got) != want:
                res.div(0, 'swizzle', f'{case["cls"]}.{s}',
                        [str(x) for x in want], repr(got))
                return
    for i, c in enumerate(letters):
        if getattr(v, c) != tokens[i]:
            res.div(0, 'swizzle', f'{case["cls"]}.{c}', str(tokens[i]),
                    repr(getattr(v, c)))
            return
    bad = 'xyzwa'
    for length in (1, 2, 3, 4, 5):
        for combo in itertools.product(bad, repeat=length):
            s = ''.join(combo)
            if length <= 4 and all(c in letters for c in s):
                continue
            res.stats['swizzle_strings_checked'] += 1
            try:
                got = getattr(v, s)
                res.div(0, 'swizzle', f'{case["cls"]}.{s} must raise '
                        'AttributeError', 'AttributeError', repr(got))
                return
            except AttributeError:
                pass
    res.nontrivial = True
    res.sample = {'identity': 'swizzle', 'cls': case['cls']}


def evidence_extra(tier, total):
    t = {k[3:]: v for k, v in total.stats.items() if k.startswith('id_')}
    n_grid = 6 * 10 ** 8
    bounds = {}
    for name, d in DEGREE.items():
        trials = t.get(name, 0)
        if trials:
            # log10 of (d/N)^t
            bounds[name] = {
                'degree': d, 'trials': trials, 'grid_values_N': n_grid,
                'log10_prob_wrong_polynomial_survives':
                    round(trials * (math.log10(d) - math.log10(n_grid)), 1)}
    return {'schwartz_zippel': bounds,
            'note': 'bounds apply to trials drawn from the uniform rational '
                    'grid (80% of the entries of each point)'}


def _short_dyadic(values):
    return all(Fraction(x).denominator <= 2 ** 20 for x in values)


def classify(case, div):
    if div['kind'] == 'f_mat_singular' \
            and not _short_dyadic(dec(case['point']['a'])):
        # float arithmetic on these entries is inexact; with short dyadic
        # entries it is exact and a miss would be a different defect
        return 'singular-float-matrix-inverted'
    return None
