"""C14 - SimpleLoop feeds exact time deltas and stops cleanly on Quit."""
import itertools
import random
from fractions import Fraction

from vf import import_desper
from vf import session
from vf.core import Res, HarnessError

ID = 'C14'
LEVEL = 'fault_enumeration'
RULE = ('scripted non-decreasing clocks (ints and dyadic rationals, repeats '
        'allowed) driving a SimpleLoop over 1-3 worlds with 1-4 logging '
        'processors each; for EVERY (iteration, processor) position of small '
        'frame scripts (<=3 iterations x <=3 processors, exhaustive) one '
        'terminating fault {raise Quit, quit_loop(world), quit_loop() through '
        'the default loop, raise a harness exception, Quit raised by the '
        'load of the handle being switched to}, optionally preceded by '
        'a switch request (desper.switch or raise SwitchWorld, also to the '
        'current handle) at every earlier position; then the SAME loop object '
        'is started again 1-3 times (after Quit and after a propagated '
        'exception); thorough adds random longer scripts. Monitor: (start#, '
        'iteration#, world, processor, dt) per process call, the clock read '
        'log, loop state after every start. Oracle: dt recomputed from the '
        'clock read log (0 on the first iteration of each start, otherwise '
        'the exact difference of consecutive readings, abandoned frames '
        'included), one process per iteration on the right world, on_quit '
        'exactly once before a quit_loop exit, Quit -> normal return with '
        'running False and current world/handle unchanged, other exceptions '
        'reach the caller as the same object. Non-trivial = a fault at a '
        'processor that is not the last of its frame followed by a restart, '
        'or a dt across a switch.'
        ' Round 14 added: Quit raised by a resource load inside a world file'
        ' during a switch.')
ANCHORS = [
    'desper/loop.py::Loop.start',
    'desper/loop.py::SimpleLoop.start',
    'desper/loop.py::SimpleLoop.loop',
    'desper/loop.py::quit_loop',
]
MIN_NONTRIVIAL = {'quick': 500, 'thorough': 5000}
MIN_STATS = {'process_calls_checked': 10000, 'starts_checked': 3000}
EXHAUSTIVE = {
    'quick': 'nprocs in 1..3 x iterations in 1..3 x every (iteration, '
             'processor) position x 4 terminating faults x (no switch | one '
             'switch of 3 kinds at every earlier position) x {1,2} restarts',
    'thorough': 'the quick sub-space plus random longer scripts'}
ASSUMPTIONS = ["don't-care: `running` after a non-Quit exception",
               'clock readings are dyadic rationals (differences exact)']

TERMINATORS = ['quit', 'quit_loop_world', 'quit_loop_default', 'harness',
               'quit_handler_raises',
               # Quit raised while the loop executes a switch: the target
               # handle's load quits (raise SwitchWorld(h) from the frame,
               # or loop.switch(h) called in the frame)
               'switch_load_quits', 'soft_switch_load_quits',
               # ... the target is a world FILE whose $res{} argument is a
               # resource whose load quits (the Quit travels through the
               # file transformers)
               'switch_file_load_quits',
               # ... the same with clear_current: the handle that keeps
               # running must not have been emptied
               'switch_load_quits_cc',
               # quit_loop(w) with a world that is not the running one
               'quit_loop_other']
SWITCHES = ['switch', 'raise_switch', 'switch_self']
# loop.switch(handle) called from inside a frame: no exception, the frame is
# completed, the next iteration processes the new current world
SOFT_SWITCH = 'loop_switch'


def enum_cases():
    clock = [0, 1, 1, 3.5, 4, 10, 10.25, 11, 20, 21, 21, 22.5, 30, 31, 32, 40,
             41, 42, 43, 44, 45, 46, 47, 48]
    for nprocs in (1, 2, 3):
        for iters in (1, 2, 3):
            positions = [(i, j) for i in range(iters) for j in range(nprocs)]
            last_iter = [(i, j) for i, j in positions if i == iters - 1]
            for (ti, tj) in last_iter:
                for term in TERMINATORS:
                    earlier = [p for p in positions if p[0] < ti]
                    variants = [[]]
                    for p in earlier:
                        for sk in SWITCHES:
                            variants.append([[p[0], p[1], sk]])
                    for pre in variants:
                        for restarts in (1, 2):
                            starts = [pre + [[ti, tj, term]]]
                            for r in range(restarts):
                                starts.append([[1, nprocs - 1, 'quit']])
                            yield {'clock': clock, 'worlds': [nprocs, nprocs],
                                   'starts': starts}


def gen_random(rng):
    nworlds = rng.randint(1, 3)
    worlds = [rng.randint(1, 4) for _ in range(nworlds)]
    t = Fraction(rng.randint(0, 80), 8)
    clock = []
    for _ in range(80):
        clock.append(float(t))
        t += rng.choice([0, 0, Fraction(1, 8), Fraction(1, 2), 1, 2, 16])
    kind = rng.random()
    if kind < 0.3:
        clock = [int(c) for c in clock]
        clock.sort()
    elif kind < 0.4:
        # nanosecond-style integers above 2**53
        base = 2 ** 60 + rng.randrange(10 ** 6)
        clock = [['I', base + int(c * 8) * rng.choice([1, 1, 3])]
                 for c in clock]
        clock.sort(key=lambda x: x[1])
    elif kind < 0.5:
        # exact rationals that are not dyadic
        clock = [['F', int(c * 24), 3 * 7] for c in clock]
    starts = []
    for _ in range(rng.randint(1, 4)):
        iters = rng.randint(1, 6)
        events = []
        for i in range(iters - 1):
            if rng.random() < 0.4:
                events.append([i, rng.randrange(4),
                               rng.choice(SWITCHES + [SOFT_SWITCH]),
                               rng.randrange(nworlds)])
        events.append([iters - 1, rng.randrange(4), rng.choice(TERMINATORS)])
        starts.append(events)
    return {'clock': clock, 'worlds': worlds, 'starts': starts,
            'falsy_worlds': rng.random() < 0.3}


def gen_cases(tier, seed):
    # whole "game sessions" (vf/session.py): the features used together,
    # judged by the self-consistency invariants of this property
    for i in range(150 if tier == 'quick' else 16 * 300):
        yield session.gen(random.Random(f'C14/session/{seed}/{tier}/{i}'),
                          tier)
    for n, case in enumerate(enum_cases()):
        if n % 3 == 1:
            # worlds that are falsy objects (a World subclass with __len__)
            case['falsy_worlds'] = True
        yield case
    n = 1500 if tier == 'quick' else 16 * 5000
    for i in range(n):
        yield gen_random(random.Random(f'C14/{seed}/{tier}/{i}'))


def run_case(case):
    if case.get('scenario') == 'session':
        return session.run(case, 'C14')
    desper = import_desper()
    res = Res()
    log = []            # ('proc', start, iteration, world, proc, dt) ...
    reads = []          # (start, value)
    state = {'start': 0, 'iter': -1, 'events': {}, 'cur': 0}
    def reading(x):
        if isinstance(x, list):
            return x[1] if x[0] == 'I' else Fraction(x[1], x[2])
        return x
    clock = [reading(x) for x in case['clock']]
    step = (clock[-1] - clock[0]) + 1

    def time_function():
        if len(reads) > 400:        # safety net: the script never ends
            raise HarnessError('clock exhausted')
        value = clock[len(reads) % len(clock)] \
            + step * (len(reads) // len(clock))
        reads.append((state['start'], value))
        state['iter'] += 1
        return value

    loop = desper.SimpleLoop(time_function)
    worlds, handles = [], []

    class WH(desper.Handle):
        def __init__(self, world):
            self.world = world
            self.clears = 0

        def load(self):
            return self.world

        def clear(self):
            self.clears += 1
            super().clear()

    class QuitHandle(desper.Handle):
        def load(self):
            raise desper.Quit()

    def make_proc(wi, pj):
        def process(self, dt=1):
            log.append(('proc', state['start'], state['iter'], wi, pj, dt))
            ev = state['events'].pop((state['iter'], pj), None)
            if ev is not None:
                fire(ev, wi)
        return type(f'LP{wi}_{pj}', (desper.Processor,),
                    {'process': process, 'priority': pj})()

    def on_quit(self):
        log.append(('on_quit', state['start'], state['iter'], self.wi))
        if fault['kind'] == 'quit_handler_raises':
            fault['obj'] = HarnessError('fault in on_quit')
            raise fault['obj']

    Listener = desper.event_handler('on_quit')(
        type('QuitListener', (), {'on_quit': on_quit}))

    class FalsyWorld(desper.World):
        def __len__(self):
            return 0

    if case.get('falsy_worlds'):
        res.tags['falsy_worlds'].add(True)
    for wi, nprocs in enumerate(case['worlds']):
        w = FalsyWorld() if case.get('falsy_worlds') else desper.World()
        for pj in range(nprocs):
            w.add_processor(make_proc(wi, pj))
        lst = Listener()
        lst.wi = wi
        w.create_entity(lst)
        worlds.append(w)
        handles.append(WH(w))

    fault = {'obj': None, 'kind': None}

    def fire(ev, wi):
        kind = ev[2]
        res.tags['event_kind'].add(kind)
        if kind == SOFT_SWITCH:
            loop.switch(handles[ev[3] % len(worlds)])
            return
        if kind in SWITCHES:
            if kind == 'switch_self':
                target = wi
            elif len(ev) > 3:
                target = ev[3] % len(worlds)
            else:
                target = (wi + 1) % len(worlds)
            state['pending_switch'] = target
            if kind == 'raise_switch':
                raise desper.SwitchWorld(handles[target])
            desper.switch(handles[target], from_world=worlds[wi])
        fault['kind'] = kind
        if kind == 'switch_load_quits':
            raise desper.SwitchWorld(QuitHandle())
        if kind == 'switch_file_load_quits':
            import json
            import os
            import tempfile
            import vf_fixtures
            vf_fixtures.build()
            state['tmp'] = tempfile.TemporaryDirectory(prefix='vf-c14-')
            path = os.path.join(state['tmp'].name, 'level.json')
            with open(path, 'w') as fout:
                json.dump({'entities': [{'components': [
                    {'type': 'vf_fixtures.RC0', 'args': ['$res{q}']}]}]},
                    fout)
            rmap = desper.ResourceMap()
            rmap['q'] = QuitHandle()
            rmap['level'] = desper.WorldFromFileHandle(path)
            state['rmap'] = rmap
            raise desper.SwitchWorld(rmap.get('level'))
        if kind == 'switch_load_quits_cc':
            state['clears_before'] = sum(h.clears for h in handles)
            raise desper.SwitchWorld(QuitHandle(), clear_current=True)
        if kind == 'soft_switch_load_quits':
            loop.switch(QuitHandle())
            raise HarnessError('a load that quits did not end the frame')
        if kind == 'quit':
            raise desper.Quit()
        if kind in ('quit_loop_world', 'quit_handler_raises'):
            desper.quit_loop(worlds[wi])
        if kind == 'quit_loop_other':
            other = worlds[(wi + 1) % len(worlds)]
            # a world that was left through switch() holds its events (the
            # held on_quit would surface in a later start): quit plainly
            state['other_enabled'] = other.dispatch_enabled
            if not other.dispatch_enabled:
                raise desper.Quit()
            desper.quit_loop(other)
        if kind == 'quit_loop_default':
            desper.quit_loop()
        fault['obj'] = HarnessError('fault')
        raise fault['obj']

    saved_default = desper.default_loop
    desper.default_loop = loop
    nontrivial = False
    try:
        loop.switch(handles[0])
        cur = 0
        for s, events in enumerate(case['starts']):
            state.update(start=s, iter=-1, pending_switch=None)
            nprocs_of = case['worlds']
            # events name a processor index modulo the number of processors
            # of whatever world is current when they fire
            state['events'] = {}
            for ev in events:
                state['events'][(ev[0], ev[1])] = ev
            state['raw'] = events
            mark_log, mark_reads = len(log), len(reads)
            fault.update(obj=None, kind=None)
            outcome = 'returned'
            # remap processor indices lazily: done in model below
            try:
                _install(state, case, events)
                loop.start()
            except HarnessError as ex:
                outcome = 'raised' if ex is fault['obj'] else f'other {ex!r}'
            except Exception as ex:
                outcome = f'other {type(ex).__name__}: {ex}'
            res.stats['starts_checked'] += 1
            if not judge_start(case, res, s, events, log[mark_log:],
                               reads[mark_reads:], outcome, fault, loop,
                               worlds, handles, state):
                break
            if state['nontrivial']:
                nontrivial = True
    finally:
        desper.default_loop = saved_default
    res.nontrivial = nontrivial
    res.sample = {'log': [list(map(str, e)) for e in log[:12]],
                  'reads': reads[:8]}
    return res


def _install(state, case, events):
    """Events address (iteration, processor % nprocs of the world that is
    current in that iteration); resolve them with the world model."""
    cur = state['cur']
    resolved = {}
    model = []
    by_iter = {}
    for ev in events:
        by_iter.setdefault(ev[0], []).append(ev)
    last = max(ev[0] for ev in events)
    for i in range(last + 1):
        n = case['worlds'][cur]
        entry = {'iter': i, 'world': cur, 'ran': n, 'fault': None}
        fired = None
        for ev in sorted(by_iter.get(i, []), key=lambda e: e[1] % n):
            j = ev[1] % n
            if fired is None:
                fired = (j, ev)
        if fired is not None:
            j, ev = fired
            resolved[(i, j)] = ev
            entry['ran'] = j + 1
            entry['fault'] = ev
            kind = ev[2]
            if kind == SOFT_SWITCH:
                entry['ran'] = n            # the frame is completed
                cur = ev[3] % len(case['worlds'])
                entry['switch_to'] = cur
            if kind in SWITCHES:
                if kind == 'switch_self':
                    cur = cur
                elif len(ev) > 3:
                    cur = ev[3] % len(case['worlds'])
                else:
                    cur = (cur + 1) % len(case['worlds'])
                entry['switch_to'] = cur
        model.append(entry)
        if fired is not None and fired[1][2] not in SWITCHES \
                and fired[1][2] != SOFT_SWITCH:
            break
    state['events'] = resolved
    state['model'] = model
    state['cur_after'] = cur


def judge_start(case, res, s, events, log, reads, outcome, fault, loop,
                worlds, handles, state):
    model = state['model']
    state['nontrivial'] = False

    def fail(kind, what, expected, observed, **kw):
        res.div(s, kind, what, expected=expected, observed=observed, **kw)
        return False

    term = model[-1]['fault']
    kind = term[2] if term is not None else None
    # ---- how the start ended
    want_outcome = 'raised' if kind in ('harness', 'quit_handler_raises') \
        else 'returned'
    if outcome != want_outcome:
        return fail('start-outcome', f'start() #{s} with a {kind} fault',
                    want_outcome, outcome)
    if want_outcome == 'returned' and loop.running is not False:
        return fail('running-after-quit', 'loop.running after Quit', False,
                    loop.running)
    cur = state['cur_after']
    if loop.current_world is not worlds[cur] \
            or loop.current_world_handle is not handles[cur]:
        return fail('current-world-changed', 'current world/handle after the '
                    'exit', f'world {cur}',
                    [worlds.index(loop.current_world)
                     if loop.current_world in worlds else None])
    state['cur'] = cur
    if kind == 'switch_load_quits_cc' and sum(
            h.clears for h in handles) != state.get('clears_before'):
        return fail('current-handle-cleared', 'Quit was raised by the load '
                    'of the world being switched to (clear_current given): '
                    'the handle of the world that keeps running was emptied',
                    'unchanged', 'cleared')
    # ---- one clock reading per iteration
    values = [Fraction(v) for _, v in reads]
    if len(values) != len(model):
        return fail('iterations', f'clock readings in start #{s}', len(model),
                    len(values))
    # ---- process calls: right world, right processors, exact dt
    procs = [e for e in log if e[0] == 'proc']
    k = 0
    total = Fraction(0)
    for entry in model:
        i = entry['iter']
        want_dt = Fraction(0) if i == 0 else values[i] - values[i - 1]
        total += want_dt
        calls = [e for e in procs if e[2] == i]
        res.stats['process_calls_checked'] += len(calls)
        want_calls = [(entry['world'], j) for j in range(entry['ran'])]
        if [(e[3], e[4]) for e in calls] != want_calls:
            return fail('frame-calls', f'start #{s} iteration {i}: processors '
                        'run (world, index)', want_calls,
                        [(e[3], e[4]) for e in calls])
        for e in calls:
            try:
                same = Fraction(e[5]) == want_dt
            except (TypeError, ValueError):
                same = False
            if not same:
                return fail('wrong-dt', f'start #{s} iteration {i}: dt passed '
                            'to process', str(want_dt), repr(e[5]),
                            first_iteration=i == 0,
                            readings=[str(v) for v in values[:i + 1]])
        if 'switch_to' in entry and i + 1 < len(model):
            state['nontrivial'] = True      # a dt across a switch is checked
        if entry['fault'] is not None and entry['ran'] < case['worlds'][
                entry['world']] and s + 1 < len(case['starts']):
            state['nontrivial'] = True
    if len(procs) != sum(e['ran'] for e in model):
        return fail('frame-calls', f'start #{s}: number of process calls',
                    sum(e['ran'] for e in model), len(procs))
    if values and total != values[-1] - values[0]:
        return fail('time-lost', 'sum of dts of one start', str(
            values[-1] - values[0]), str(total))
    # ---- on_quit
    quits = [e for e in log if e[0] == 'on_quit']
    if kind in ('quit_loop_world', 'quit_loop_default', 'quit_handler_raises',
                'quit_loop_other'):
        w = model[-1]['world']
        if kind == 'quit_loop_other':
            w = (w + 1) % len(worlds)
            if not state.get('other_enabled', True):
                if quits:
                    return fail('on-quit', 'on_quit delivered without '
                                'quit_loop', [], [e[3] for e in quits])
                return True
        if [e[3] for e in quits] != [w]:
            return fail('on-quit', 'on_quit deliveries before a quit_loop '
                        'exit', [w], [e[3] for e in quits])
    elif quits:
        return fail('on-quit', 'on_quit delivered without quit_loop', [],
                    [e[3] for e in quits])
    return True


def shrink(case):
    starts = case['starts']
    for i in range(len(starts)):
        if len(starts) > 1:
            yield dict(case, starts=starts[:i] + starts[i + 1:])
    for i, events in enumerate(starts):
        for j in range(len(events) - 1):
            new = [list(e) for e in starts]
            new[i] = events[:j] + events[j + 1:]
            yield dict(case, starts=new)


def classify(case, div):
    return None
