"""C04 - Disabled dispatchers defer events and release them once, in order."""
import collections
import itertools
import random
import sys

from vf import import_desper
from vf.core import Res, StepBudget, StepBudgetExceeded, HarnessError

ID = 'C04'
LEVEL = 'fault_enumeration'
RULE = ('base scripts: 1-4 (quick, all of them) / up to 8 (thorough, random) '
        'events dispatched while disabled over <=3 handlers listening to '
        "subsets of the names; for each base script EVERY callback position "
        'of the release is enumerated with each fault kind {callback raises a '
        'harness exception / desper.Quit / desper.SwitchWorld, callback sets '
        'dispatch_enabled=False, callback dispatches a new event, callback '
        'adds / removes a handler}, on a bare EventDispatcher and on a World; '
        'then 1-3 further disable/dispatch/enable cycles (thorough: a second '
        'fault in a later release) and one final clean enabling assignment. '
        'Monitor: delivery log with unique event tokens, dispatch_enabled at '
        'every callback, outcome of every enabling assignment (returned / '
        'raised which object / step budget). Oracle (trace checker): no '
        'callback while disabled; no handler sees a token twice in one '
        'assignment; every non-faulting token is received exactly once '
        'overall by every handler registered throughout, never by handlers '
        'removed before its delivery, in dispatch order; nothing is left '
        'pending when an enabling assignment completes normally while still '
        'enabled; a raised fault propagates as the same object; every '
        'enabling assignment stays within a logical step budget '
        '(sys.monitoring PY_START count on dispatch and the setter). '
        'Bracket sub-workload: every callback disables dispatching while '
        'it works and enables it again, 1-150 (and 400/600) events pending. '
        'Non-trivial = >=2 deferred events and a fault position that is '
        'neither the first nor the last callback, or >=2 release cycles.'
        " Rounds 9-13 added: keyword payloads named like the dispatcher's"
        ' own parameters; injected exceptions of builtin types (IndexError,'
        ' KeyError, StopIteration, ...).'
        ' Round 14 added: a bystander dispatcher with pending events of its'
        ' own.')
ANCHORS = [
    'desper/events.py::EventDispatcher.dispatch',
    'desper/events.py::EventDispatcher.dispatch_enabled',
]
MIN_NONTRIVIAL = {'quick': 500, 'thorough': 5000}
MIN_STATS = {'enabling_assignments_checked': 3000, 'faults_injected': 1000}
EXHAUSTIVE = {
    'quick': 'all event sequences of length 1-4 over names {a,b} with '
             'handlers h0:{a} h1:{a,b} h2:{b} x every callback position of '
             'the first release x 7 fault kinds x {1,2} later cycles x '
             '{EventDispatcher, World}',
    'thorough': 'the quick sub-space, plus a random sample of larger scripts'}
ASSUMPTIONS = [
    "don't-care: the faulting event itself (partially delivered) is only "
    'judged "no handler sees it twice within one assignment"; events whose '
    'name never had a listener; order between a pending remainder and events '
    'dispatched immediately meanwhile; with an enabling assignment made from '
    'inside a callback of a running release the two clauses "delivered before '
    'the enabling assignment returns" and "in dispatch order" cannot both '
    'hold for the handlers the in-flight event has not reached yet: the '
    'nested assignment must deliver what is pending, order is judged on the '
    'first delivery of each event',
    'step budget = 10 x (events pending + events the workload dispatches from '
    'callbacks) + 100 entries into dispatch/setter; correct code needs at '
    'most pending + dispatched + 1',
]

FAULT_TYPES = [HarnessError] + [
    type(f'Harness{base.__name__}', (HarnessError, base), {})
    for base in (IndexError, KeyError, StopIteration, AttributeError,
                 RuntimeError, LookupError, ValueError, TypeError)]

FAULTS = ['raise', 'quit', 'switch', 'disable', 'dispatch', 'addh', 'rmh',
          'disable_dispatch', 'reenable_nested']
FIXED_HANDLERS = [['a'], ['a', 'b'], ['b']]


def callbacks_of(handlers, events):
    return sum(1 if ev == '+' else sum(1 for h in handlers if ev in h)
               for ev in events)


def gen_cases(tier, seed):
    # ---- exhaustive sub-space
    for n in range(1, 5):
        for events in itertools.product('ab', repeat=n):
            total = callbacks_of(FIXED_HANDLERS, events)
            for pos in range(total):
                for kind in FAULTS:
                    for cycles in (1, 2):
                        for world in (False, True):
                            yield {'handlers': FIXED_HANDLERS, 'spare': ['a', 'b'],
                                   'events': list(events),
                                   'faults': [[0, pos, kind]],
                                   'cycles': cycles, 'world': world,
                                   'direct': cycles == 2,
                                   'extra': [['b', 'a']] * cycles}
    # ---- World only: lifecycle relays ('+' = create_entity with an on_add
    # handler while disabled) share the queue with ordinary events
    for n in range(1, 4):
        for events in itertools.product('ab+', repeat=n):
            if '+' not in events:
                continue
            total = callbacks_of(FIXED_HANDLERS, events)
            for pos in range(total):
                for kind in FAULTS:
                    yield {'handlers': FIXED_HANDLERS, 'spare': ['a', 'b'],
                           'events': list(events), 'faults': [[0, pos, kind]],
                           'cycles': 1, 'world': True, 'direct': True,
                           'extra': [['+', 'a']]}
    for i in range(24 if tier == 'quick' else 400):
        rng = random.Random(f'C04/scale/{seed}/{tier}/{i}')
        events = [rng.choice('abc') for _ in range(rng.randint(70, 260))]
        handlers = [['a', 'b'], ['b', 'c'], ['a', 'c']]
        total = callbacks_of(handlers, events)
        yield {'handlers': handlers, 'spare': ['a', 'b'], 'events': events,
               'faults': [[0, rng.randrange(total), rng.choice(FAULTS)],
                          [1, rng.randrange(40), rng.choice(FAULTS)]],
               'cycles': 2, 'world': rng.random() < 0.3,
               'extra': [['a', 'b'], ['c']], 'direct': rng.random() < 0.5}
    # ---- every callback brackets its work with disable / enable
    for i in range(60 if tier == 'quick' else 16 * 200):
        rng = random.Random(f'C04/bracket/{seed}/{tier}/{i}')
        yield {'scenario': 'bracket', 'world': rng.random() < 0.4,
               'handlers': rng.randint(1, 3),
               'n': rng.choice([400, 600]) if i % 30 == 7
               else rng.randint(1, 150)}
    if tier == 'quick':
        n = 600
    else:
        n = 16 * 20000
    for i in range(n):
        rng = random.Random(f'C04/{seed}/{tier}/{i}')
        names = 'abc'
        handlers = [sorted(rng.sample(names, rng.randint(1, 3)))
                    for _ in range(rng.randint(1, 3))]
        events = [rng.choice(names + 'z+') for _ in range(rng.randint(1, 8))]
        cycles = rng.randint(1, 3)
        extra = [[rng.choice(names) for _ in range(rng.randint(0, 3))]
                 for _ in range(cycles)]
        total = max(1, callbacks_of(handlers, events))
        faults = [[0, rng.randrange(total), rng.choice(FAULTS)]]
        if rng.random() < 0.5:
            faults.append([rng.randint(0, cycles), rng.randrange(6),
                           rng.choice(FAULTS)])
        yield {'handlers': handlers, 'spare': sorted(rng.sample(names, 2)),
               'events': events, 'faults': faults, 'cycles': cycles,
               'world': rng.random() < 0.4, 'extra': extra,
               'direct': rng.random() < 0.5,
               # value-like handlers that are falsy objects
               'falsy_handlers': rng.choice([None, None, None, 'bool',
                                             'len']),
               # keyword arguments carried by every event
               'payload': rng.choice([None, None, 'event_name', 'name'])}


_budget = None


def budget(desper):
    global _budget
    if _budget is None:
        ed = desper.EventDispatcher
        _budget = StepBudget([ed.dispatch.__code__,
                              ed.dispatch_enabled.fset.__code__])
        _budget.install()
    return _budget


def run_bracket(case):
    """Every callback disables dispatching while it works and enables it
    again (each nested enabling assignment releases what is pending)."""
    desper = import_desper()
    res = Res()
    d = desper.World() if case['world'] else desper.EventDispatcher()
    log = []

    def ev(self, token):
        d.dispatch_enabled = False
        log.append((self.idx, token))
        d.dispatch_enabled = True

    H = desper.event_handler('ev')(type('BH', (), {'ev': ev}))
    hs = []
    for i in range(case['handlers']):
        h = H()
        h.idx = i
        hs.append(h)
        d.add_handler(h)
    n = case['n']
    d.dispatch_enabled = False
    for t in range(n):
        d.dispatch('ev', t)
    exc = None
    try:
        d.dispatch_enabled = True
    except BaseException as ex:     # noqa: B902 - RecursionError included
        exc = ex
    res.stats['bracket_releases'] += 1
    res.stats['deliveries_checked'] += len(log)
    res.tags['bracket_queue_length'].add(min(n // 50 * 50, 400))
    if exc is not None:
        res.div(0, 'bracket-raised', f'enabling with {n} pending events '
                'raised although no callback raises (every callback '
                'brackets its work with disable/enable)', 'no exception',
                f'{type(exc).__name__}', pending=n)
        # what happened to the events is part of the same witness (the
        # remainder may be long enough to overflow the stack again)
        for _ in range(20):
            try:
                d.dispatch_enabled = True
                break
            except RecursionError:
                continue
    import collections
    got = collections.Counter(log)
    lost = [(h, t) for h in range(len(hs)) for t in range(n)
            if got[(h, t)] != 1]
    if lost and not res.divs:
        res.div(0, 'bracket-lost', 'events not delivered exactly once each',
                'once each', lost[:5], pending=n)
    first = {}
    for h, t in log:
        first.setdefault(t, len(first))
    if not res.divs and sorted(first, key=first.get) != sorted(first):
        res.div(0, 'out-of-order', 'first deliveries not in dispatch order',
                None, sorted(first, key=first.get)[:10])
    res.nontrivial = n >= 2
    res.sample = {'pending': n, 'delivered': len(log)}
    return res


def run_case(case):
    if case.get('scenario') == 'bracket':
        return run_bracket(case)
    desper = import_desper()
    res = Res()
    watchdog = budget(desper)
    d = desper.World() if case['world'] else desper.EventDispatcher()
    # a bystander: another dispatcher, disabled, with events of its own
    # pending for the whole history of `d` (two worlds, one of them left)
    by_log = []
    Bystander = desper.event_handler('ev')(
        type('Bystander', (), {'ev': lambda self, tok: by_log.append(tok)}))
    bystander = Bystander()
    d2 = desper.World() if case['world'] else desper.EventDispatcher()
    d2.add_handler(bystander)
    d2.dispatch_enabled = False
    by_tokens = [object(), object()]
    for tok in by_tokens:
        d2.dispatch('ev', tok)
    log = []            # (seq, handler, token, assignment#, enabled_at_call)
    seq = [0]
    assignment = [None]     # index of the enabling assignment in progress
    cb_in_assignment = [0]
    tokens = []         # (token, name, dispatched_in_assignment_or_None)
    faults = {}         # assignment index -> (pos, kind)
    for a, pos, kind in case['faults']:
        faults.setdefault(a, (pos, kind))
    changes = []        # (seq, handler idx, 'add'|'remove', token being delivered)
    faulting_tokens = set()
    injected = []
    dispatched_from_callbacks = [0]
    raised_obj = [None]

    # every event of the case carries the same keyword payload; a keyword
    # may be called like a parameter of the dispatcher's own methods
    payload = {None: {}, 'event_name': {'event_name': 'kw'},
               'name': {'name': 1, 'args': (), 'kwargs': None}}[
                   case.get('payload')]
    if payload:
        res.tags['keyword_payload'].add(case['payload'])

    def make_handler(idx, names):
        ns = {}
        for name in names:
            def cb(self, token, _name=name, **kw):
                if kw != payload:
                    res.div(seq[0], 'wrong-arguments', 'keyword arguments of '
                            'the event differ from the dispatched ones',
                            payload, kw)
                seq[0] += 1
                log.append((seq[0], self.idx, token, assignment[0],
                            d.dispatch_enabled))
                if assignment[0] is None:
                    return
                k = cb_in_assignment[0]
                cb_in_assignment[0] += 1
                f = faults.get(assignment[0])
                if f is not None and f[0] == k:
                    inject(f[1], token)
            ns['on_' + name] = cb
        if case.get('falsy_handlers') == 'bool':
            ns['__bool__'] = lambda self: False
        elif case.get('falsy_handlers') == 'len':
            ns['__len__'] = lambda self: 0
        cls = desper.event_handler(**{n: 'on_' + n for n in names})(
            type(f'FH{idx}', (), ns))
        obj = cls()
        obj.idx = idx
        return obj

    handlers = [make_handler(i, names)
                for i, names in enumerate(case['handlers'])]
    spare = make_handler(len(handlers), case['spare'])
    all_handlers = handlers + [spare]
    listening = [set(n) for n in case['handlers']] + [set(case['spare'])]
    for h in handlers:
        d.add_handler(h)

    attach_owner = {}

    def on_add(self, entity, world):
        seq[0] += 1
        log.append((seq[0], self.idx, self.tok, assignment[0],
                    d.dispatch_enabled))
        if assignment[0] is None:
            return
        k = cb_in_assignment[0]
        cb_in_assignment[0] += 1
        f = faults.get(assignment[0])
        if f is not None and f[0] == k:
            inject(f[1], self.tok)

    AttachH = desper.event_handler('on_add')(
        type('AttachH', (), {'on_add': on_add}))

    def send(name):
        """Dispatch one scripted event ('+' = a lifecycle relay)."""
        if name == '+' and case['world']:
            h = AttachH()
            h.idx = len(all_handlers)
            h.tok = new_token('+')
            all_handlers.append(h)
            listening.append(set())
            attach_owner[h.tok] = h.idx
            d.create_entity(h)
        else:
            name = 'a' if name == '+' else name
            d.dispatch(name, new_token(name), **payload)

    def new_token(name):
        tok = len(tokens)
        # third field: None when the event was queued (dispatched while
        # disabled), else the assignment during which it was dispatched
        tokens.append((tok, name, None if not d.dispatch_enabled
                       else (assignment[0] if assignment[0] is not None
                             else 'immediate')))
        return tok

    def inject(kind, token):
        injected.append(kind)
        faulting_tokens.add(token)
        res.stats['faults_injected'] += 1
        res.tags['fault_kind'].add(kind)
        if kind == 'raise':
            # (of several types: a library that catches a builtin exception
            # for its own purposes must not swallow the callback's)
            raised_obj[0] = FAULT_TYPES[token % len(FAULT_TYPES)]('injected')
            res.tags['raised_type'].add(type(raised_obj[0]).__name__)
            raise raised_obj[0]
        if kind == 'quit':
            raised_obj[0] = desper.Quit()
            raise raised_obj[0]
        if kind == 'switch':
            raised_obj[0] = desper.SwitchWorld(desper.Handle())
            raise raised_obj[0]
        if kind == 'disable':
            d.dispatch_enabled = False
        elif kind == 'disable_dispatch':
            # the switch() pattern: disable, then dispatch (queued behind
            # everything that is still pending)
            d.dispatch_enabled = False
            dispatched_from_callbacks[0] += 1
            name = case['events'][-1] if case['events'][-1] not in 'z+' \
                else 'a'
            d.dispatch(name, new_token(name), **payload)
        elif kind == 'reenable_nested':
            # disable, dispatch, enable again - all from inside a callback
            # that a release is running: the nested enabling assignment must
            # deliver everything still pending before it returns
            d.dispatch_enabled = False
            dispatched_from_callbacks[0] += 1
            name = case['events'][-1] if case['events'][-1] not in 'z+' \
                else 'a'
            d.dispatch(name, new_token(name), **payload)
            d.dispatch_enabled = True
            got_now = {(e[1], e[2]) for e in log}
            changed_h = {c[1] for c in changes}
            for tok, nm, _ in tokens:
                if nm in 'z+' or tok in faulting_tokens:
                    continue
                for h in range(len(handlers)):
                    if h in changed_h or nm not in listening[h]:
                        continue
                    if (h, tok) not in got_now and not res.divs:
                        res.div(assignment[0], 'left-pending', 'an enabling '
                                'assignment made from inside a callback of a '
                                'running release returned with event token '
                                f'{tok} ({nm}) not delivered to handler {h}',
                                'delivered before the assignment returns',
                                'still pending', injected=list(injected))
            res.stats['nested_reenable'] += 1
        elif kind == 'dispatch':
            dispatched_from_callbacks[0] += 1
            name = case['events'][0] if case['events'][0] not in 'z+' \
                else 'a'
            d.dispatch(name, new_token(name), **payload)
        elif kind == 'addh':
            d.add_handler(spare)
            changes.append((seq[0], spare.idx, 'add', token))
        elif kind == 'rmh':
            victim = handlers[-1]
            d.remove_handler(victim)
            changes.append((seq[0], victim.idx, 'remove', token))

    outcomes = []

    def enable(index):
        """One enabling assignment under the step budget."""
        assignment[0] = index
        cb_in_assignment[0] = 0
        raised_obj[0] = None
        pending = len(tokens)
        watchdog.arm(10 * (pending + 4) + 100)
        outcome = 'returned'
        try:
            d.dispatch_enabled = True
        except StepBudgetExceeded as ex:
            outcome = 'budget'
            res.div(index, 'enable-does-not-terminate', 'an enabling '
                    'assignment exceeded its logical step budget',
                    expected='<= pending + dispatched + 1 dispatch calls',
                    observed=str(ex), injected=list(injected))
        except (HarnessError, desper.Quit, desper.SwitchWorld) as ex:
            outcome = 'raised'
            if ex is not raised_obj[0]:
                res.div(index, 'fault-not-propagated', 'the exception leaving '
                        'the enabling assignment is not the object the '
                        'callback raised', expected=repr(raised_obj[0]),
                        observed=repr(ex))
        except Exception as ex:
            outcome = 'error'
            res.div(index, 'enable-raised', 'enabling assignment raised '
                    f'{type(ex).__name__}: {ex}', expected='no exception of '
                    "desper's own making", observed=repr(ex),
                    injected=list(injected))
        finally:
            steps = watchdog.disarm()
            assignment[0] = None
        res.stats['enabling_assignments_checked'] += 1
        res.tags['steps_per_assignment'].add(min(steps, 50))
        if outcome == 'returned' and raised_obj[0] is not None:
            res.div(index, 'fault-swallowed', 'a callback raised but the '
                    'enabling assignment returned normally',
                    expected=repr(raised_obj[0]), observed='returned')
        outcomes.append((index, outcome, d.dispatch_enabled))
        if outcome == 'returned' and d.dispatch_enabled and not res.divs:
            # delivered "before the enabling assignment returns"
            changed_h = {c[1] for c in changes}
            got = {(e[1], e[2]) for e in log}
            for tok, name, _ in tokens:
                if name == 'z' or tok in faulting_tokens:
                    continue
                if name == '+':
                    if (attach_owner[tok], tok) not in got:
                        res.div(index, 'left-pending', 'an enabling '
                                'assignment returned normally, dispatching '
                                f'enabled, with the postponed on_add (token '
                                f'{tok}) not delivered', 'delivered',
                                'still pending', injected=list(injected))
                        return outcome
                    continue
                for h in range(len(handlers)):
                    if h in changed_h or name not in listening[h]:
                        continue
                    if (h, tok) not in got:
                        res.div(index, 'left-pending', 'an enabling '
                                'assignment returned normally, dispatching '
                                f'enabled, with event token {tok} ({name}) '
                                f'not yet delivered to handler {h}',
                                expected='delivered before the assignment '
                                'returns', observed='still pending',
                                injected=list(injected))
                        return outcome
        return outcome

    # ---- the script
    try:
        d.dispatch_enabled = False
        for name in case['events']:
            send(name)
        if log:
            res.div(0, 'callback-while-disabled', 'a callback ran while '
                    'dispatching was disabled', [], log[:3])
        index = 0
        out = enable(index)
        if out == 'raised' and d.dispatch_enabled and not res.divs:
            # still enabled with a remainder pending: an event dispatched
            # now is an ordinary immediate dispatch (C03) - it may not be
            # parked behind the remainder
            before = len(log)
            tok = len(tokens)
            name = next((n for n in case['events'] if n not in 'z+'), 'a')
            d.dispatch(name, new_token(name), **payload)
            res.stats['immediate_dispatch_after_raise'] += 1
            got_now = {e[1] for e in log[before:] if e[2] == tok}
            changed_h = {c[1] for c in changes}
            for h in range(len(handlers)):
                if h in changed_h or name not in listening[h]:
                    continue
                if h not in got_now:
                    res.div(index, 'immediate-not-delivered', 'dispatching is '
                            'enabled (a release was interrupted by a raising '
                            'callback) but a dispatched event was not '
                            f'delivered at once to handler {h}',
                            'delivered immediately', 'not delivered',
                            injected=list(injected))
                    break
        if out == 'raised' and case.get('direct') and not res.divs:
            # enabling again WITHOUT disabling first (SimpleLoop.switch does
            # exactly this after catching SwitchWorld): the remainder must
            # come out now
            index += 1
            res.stats['direct_reenable_after_raise'] += 1
            out = enable(index)
        for c in range(case['cycles']):
            if res.divs:
                break
            index += 1
            before = len(log)
            d.dispatch_enabled = False
            for name in case['extra'][c]:
                send(name)
            if len(log) != before:
                res.div(index, 'callback-while-disabled', 'a callback ran '
                        'while dispatching was disabled', [], log[before:][:3])
                break
            out = enable(index)
        # final clean assignments: everything must have come out by the end
        guard = 0
        while not res.divs and guard < 4:
            guard += 1
            index += 1
            out = enable(index)
            if out == 'returned' and d.dispatch_enabled:
                break
    except StepBudgetExceeded as ex:
        res.div(-1, 'enable-does-not-terminate', 'step budget exceeded '
                'outside an armed region', None, str(ex))
    except Exception as ex:
        res.div(-1, 'script-raised', f'{type(ex).__name__}: {ex}',
                'no exception', repr(ex))

    if not res.divs and case['world']:
        direct_path_nested_disable(desper, d, res)
    if not res.divs:
        judge(case, res, log, tokens, changes, faulting_tokens, outcomes,
              listening, attach_owner, spare.idx)
    if not res.divs:
        early = list(by_log)
        d2.dispatch_enabled = True
        res.stats['bystander_dispatchers_checked'] += 1
        if early or len(by_log) != 2 or any(
                a is not b for a, b in zip(by_log, by_tokens)):
            res.div(len(case['events']), 'bystander-queue-disturbed',
                    'another dispatcher, disabled with two events of its own '
                    'pending while this history ran, delivers exactly those '
                    'two, in order, when it is enabled', 2,
                    {'before_enabling': len(early), 'in_all': len(by_log)})
    ncallbacks = callbacks_of(case['handlers'], case['events'])
    pos = case['faults'][0][1]
    res.nontrivial = ((len(case['events']) >= 2 and 0 < pos < ncallbacks - 1
                       and bool(injected)) or
                      (case['cycles'] >= 2 and bool(injected)))
    res.sample = {'deliveries': [list(x[1:4]) for x in log][:12],
                  'outcomes': outcomes, 'injected': injected}
    return res


def direct_path_nested_disable(desper, w, res):
    """While dispatching is ENABLED lifecycle callbacks are called directly;
    if one of them disables dispatching, the callbacks that follow in the
    same operation must be deferred like any other event."""
    calls = []

    def on_add(self, entity, world):
        calls.append((self.tag, world.dispatch_enabled))
        if self.tag == 'first':
            world.dispatch_enabled = False

    cls_a = desper.event_handler('on_add')(type('DA', (), {'on_add': on_add}))
    cls_b = desper.event_handler('on_add')(type('DB', (), {'on_add': on_add}))
    a, b = cls_a(), cls_b()
    a.tag, b.tag = 'first', 'second'
    try:
        w.dispatch_enabled = True
        w.create_entity(a, b)
        during = list(calls)
        w.dispatch_enabled = True
    except Exception as ex:
        res.div(-1, 'script-raised', f'{type(ex).__name__}: {ex}',
                'no exception', repr(ex))
        return
    res.stats['direct_path_nested_disable_checked'] += 1
    if any(not enabled for _, enabled in calls):
        res.div(-1, 'callback-while-disabled', 'create_entity called an '
                'on_add directly although an earlier on_add of the same call '
                'had disabled dispatching', 'deferred until enabled again',
                [list(c) for c in during])
    elif [t for t, _ in calls] != ['first', 'second']:
        res.div(-1, 'event-lost', 'on_add of the second component of a '
                'create_entity whose first on_add disabled dispatching',
                ['first', 'second'], [t for t, _ in calls])


def judge(case, res, log, tokens, changes, faulting_tokens, outcomes,
          listening, attach_owner, spare_idx):
    nh = len(listening)
    changed = {c[1] for c in changes}
    # 1. never while disabled
    for entry in log:
        res.stats['deliveries_checked'] += 1
        if not entry[4] and entry[2] not in faulting_tokens:
            res.div(entry[3], 'callback-while-disabled', 'a callback ran '
                    'while dispatch_enabled was False', None, list(entry))
            return
    # 2. never twice within one assignment
    per = collections.Counter((e[1], e[2], e[3]) for e in log)
    for (h, tok, a), n in per.items():
        if n > 1:
            res.div(a, 'duplicate-delivery', f'handler {h} received event '
                    f'token {tok} {n} times within one enabling assignment',
                    1, n)
            return
    # 3. exactly once overall for stable handlers / non-faulting tokens
    total = collections.Counter((e[1], e[2]) for e in log)
    first_seq = {}
    for e in log:
        first_seq.setdefault(e[2], e[0])
    for tok, name, _ in tokens:
        if name == 'z':
            continue
        for h in range(nh):
            if name == '+':
                n = total.get((h, tok), 0)
                want = 1 if h == attach_owner[tok] else 0
                if tok in faulting_tokens and want == 1:
                    res.stats['dontcare_faulting_event'] += 1
                elif n != want:
                    res.div(-1, 'event-lost' if n < want
                            else 'event-redelivered', f'postponed on_add '
                            f'(token {tok}) reached handler {h} {n} time(s)',
                            expected=want, observed=n)
                    return
                continue
            if name not in listening[h]:
                if total.get((h, tok), 0):
                    res.div(-1, 'wrong-listener', f'handler {h} does not '
                            f'listen to {name} but received token {tok}', 0,
                            total[(h, tok)])
                    return
                continue
            n = total.get((h, tok), 0)
            if tok in faulting_tokens:
                res.stats['dontcare_faulting_event'] += 1
                continue
            if h == spare_idx and h not in changed:
                want = 0            # the spare handler was never registered
            elif h not in changed:
                want = 1
            else:
                ch = [c for c in changes if c[1] == h]
                if len(ch) != 1 or tok not in first_seq:
                    res.stats['dontcare_changed_handler'] += 1
                    if n > 1:
                        res.div(-1, 'duplicate-delivery', f'handler {h} got '
                                f'token {tok} {n} times', '<=1', n)
                        return
                    continue
                s, _, what, during = ch[0]
                if tok == during:
                    continue
                after = first_seq[tok] > s
                want = (1 if after else 0) if what == 'add' \
                    else (0 if after else 1)
            if n != want:
                kind = ('redelivered' if n > want else 'lost')
                res.div(-1, f'event-{kind}', f'handler {h} received event '
                        f'token {tok} ({name}) {n} time(s) over the whole '
                        'history', expected=want, observed=n,
                        deliveries=[list(x[:4]) for x in log if x[2] == tok])
                return
    # 4. dispatch order (tokens dispatched while disabled, by first delivery)
    order = [tok for tok, name, a in tokens
             if a is None and tok in first_seq and tok not in faulting_tokens]
    seqs = [first_seq[t] for t in order]
    if seqs != sorted(seqs):
        res.div(-1, 'out-of-order', 'deferred events were not released in '
                'dispatch order', expected=sorted(order),
                observed=[t for _, t in sorted(zip(seqs, order))])
        return
    # 5. a raised fault leaves the rest pending, a nested disable leaves the
    #    dispatcher disabled
    for index, outcome, enabled in outcomes:
        res.tags['outcome'].add(f'{outcome}/{enabled}')


def shrink(case):
    if case.get('scenario') == 'bracket':
        if case['n'] > 1:
            yield dict(case, n=case['n'] // 2)
            yield dict(case, n=case['n'] - 1)
        if case['handlers'] > 1:
            yield dict(case, handlers=case['handlers'] - 1)
        return
    ev = case['events']
    for i in range(len(ev)):
        if len(ev) > 1:
            yield dict(case, events=ev[:i] + ev[i + 1:])
    if case['cycles'] > 1:
        yield dict(case, cycles=case['cycles'] - 1)
    if len(case['faults']) > 1:
        yield dict(case, faults=case['faults'][:1])
        yield dict(case, faults=case['faults'][1:])
    f = case['faults'][0]
    if f[1] > 0:
        yield dict(case, faults=[[f[0], f[1] - 1, f[2]]] + case['faults'][1:])
    for i, extra in enumerate(case['extra']):
        if extra:
            yield dict(case, extra=case['extra'][:i] + [extra[:-1]]
                       + case['extra'][i + 1:])


def classify(case, div):
    if case.get('scenario') == 'bracket' and case['n'] >= 300 \
            and div['kind'] == 'bracket-raised' \
            and div.get('observed') == 'RecursionError':
        return 'nested-release-recursion'
    return None
