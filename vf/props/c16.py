"""C16 - Directory population mirrors the file tree under the rules."""
import collections
import os
import random
import shutil
import tempfile

from vf import import_desper
from vf.core import Res

ID = 'C16'
LEVEL = 'exploration'
RULE = ('real directory trees under a per-case temporary directory (depth<=4, '
        '0-12 files, names with 0/1/2 extensions, empty directories, '
        'directory names with dots; in every 4th case names containing glob '
        'magic characters [ ] ? * incl. the root directory itself, in every '
        '16th names beginning with "."), two alternative roots; 1-3 rules with '
        'relative paths (root itself, nested and overlapping rule '
        'directories, missing paths, a path that is a regular file), '
        'extension filters (none, one, several, none matching), extra '
        'positional/keyword arguments; nest_on_conflict x trim_extensions set '
        'at construction and overridden per call; the same map populated 1-3 '
        'times, also with different roots. Oracle: an independent os.walk '
        '(no glob) with os.path.splitext for the extension test; after every '
        'population: each accepted file reachable under its key through a '
        'handle the recorder factory built from (path, *args, **kwargs) of '
        'the last rule producing that key, every directory on the way a '
        'sub-map, no key that corresponds to no file/directory under a rule '
        'directory (all ChainMap layers walked), older handle beneath the '
        'new one when nesting and not visible otherwise, ValueError for a '
        'rule path that is a regular file, missing path skipped. '
        'Non-trivial = nested directories with an extension filter, or a key '
        'conflict, or repeated population.'
        ' Rounds 9-13 added: roots in non-normal spellings (x/.., //, /./,'
        ' relative, the working directory itself), a rule directory outside'
        ' the root, a factory that re-enters the populator, names repeating'
        ' the text of an extension.'
        ' Round 14 added: the root reached through a symbolic link.')
ANCHORS = [
    'desper/model/__init__.py::DirectoryResourcePopulator.__call__',
    'desper/model/__init__.py::DirectoryResourcePopulator.add_rule',
    'desper/model/__init__.py::DirectoryPopulatorRule.instantiate',
]
MIN_NONTRIVIAL = {'quick': 150, 'thorough': 3000}
MIN_STATS = {'files_checked': 1000, 'populations': 300}
ASSUMPTIONS = [
    'not generated: a trimmed file key colliding with a sibling directory '
    'name; names beginning with "." only in every 16th random case (known '
    'finding hidden-entries-skipped)',
    "don't-care: whether empty or filtered-out directories become sub-maps; "
    'which of two files of one rule that collide after trimming ends up '
    'visible (the other must be beneath when nesting)',
]

# ('shots.png', 'copy.png': the text of an extension also earlier in a path)
DIRS = ['a', 'b', 'img', 'snd.d', 'x.y', 'shots.png']
STEMS = ['f', 'g', 'pic', 'readme', 'n.m', 'copy.png']
EXTS = ['', '.txt', '.png', '.gz']


MAGIC_DIRS = ['lvl[1]', 'q?', 'st*r', '[', 'a[b-c]d']
MAGIC_STEMS = ['f[0]', 'wh?t', '*']
HIDDEN_DIRS = ['.cache', '.d']
HIDDEN_STEMS = ['.hidden', '.config']


def gen_tree(rng, magic=False, hidden=False):
    DIRS = globals()['DIRS'] + (MAGIC_DIRS if magic else []) \
        + (HIDDEN_DIRS if hidden else [])
    STEMS = globals()['STEMS'] + (MAGIC_STEMS if magic else []) \
        + (HIDDEN_STEMS if hidden else [])
    dirs = set()
    for _ in range(rng.randint(0, 5)):
        depth = rng.randint(1, 3)
        parts = [rng.choice(DIRS) for _ in range(depth)]
        for i in range(1, depth + 1):
            dirs.add('/'.join(parts[:i]))
    files = set()
    where = [''] + sorted(dirs)
    for _ in range(rng.randint(0, 12)):
        d = rng.choice(where)
        name = rng.choice(STEMS) + rng.choice(EXTS)
        files.add(f'{d}/{name}' if d else name)
    return {'dirs': sorted(dirs), 'files': sorted(files)}


def gen_one(rng, tier, magic=False, hidden=False):
    roots = [gen_tree(rng, magic, hidden)]
    if rng.random() < 0.4:
        roots.append(gen_tree(rng, magic, hidden))
    all_dirs = sorted({d for r in roots for d in r['dirs']})
    all_files = sorted({f for r in roots for f in r['files']})
    rules = []
    for _ in range(rng.randint(1, 3)):
        k = rng.random()
        if k < 0.25:
            path = rng.choice(['', '.'])
        elif k < 0.8 and all_dirs:
            path = rng.choice(all_dirs)
        elif k < 0.9:
            path = 'missing/dir'
        elif all_files:
            path = rng.choice(all_files)        # a regular file
        else:
            path = 'missing'
        e = rng.random()
        if e < 0.4:
            exts = []
        elif e < 0.7:
            exts = [rng.choice(EXTS[1:])]
        elif e < 0.9:
            exts = rng.sample(EXTS, 2)
        else:
            exts = ['.nomatch']
        if path not in ('', '.') and rng.random() < 0.15:
            # the same directory (or file) spelled with a trailing
            # separator or a trailing '/.'
            path += rng.choice(['/', '/.'])
        rules.append({'path': path, 'exts': exts,
                      'args': [rng.randrange(100)
                               for _ in range(rng.randint(0, 2))],
                      'kwargs': {k: rng.randrange(100)
                                 for k in rng.sample(['k', 'q'],
                                                     rng.randint(0, 2))}})
    calls = []
    for _ in range(rng.randint(1, 3)):
        calls.append({'root': rng.randrange(len(roots)),
                      'nest': rng.choice([None, None, True, False]),
                      'trim': rng.choice([None, None, True, False]),
                      'root_by_arg': rng.random() < 0.5,
                      # the root spelled with a trailing separator
                      'trailing_sep': rng.random() < 0.2,
                      # ... or in another non-normal form: through 'x/..',
                      # with a doubled separator, with '/./' inside,
                      # relative to the working directory ('name', './name')
                      'spelling': rng.choice(
                          [None, None, None, 'dotdot', 'double', 'slashdot',
                           'relative', 'dot_relative', 'cwd_dot',
                           'cwd_dotslash', 'cwd_empty', 'symlink']),
                      # a file appears in an existing (nested) directory
                      # between two populations by the same populator
                      'add_file': rng.random() < 0.25})
    outside = None
    if rng.random() < 0.15:
        # a rule directory OUTSIDE the root, in a sibling directory whose
        # name begins with the root's name: keys start with '..'
        outside = [rng.choice(['a.txt', 'n.png']),
                   'deep/' + rng.choice(['b.txt', 'c'])]
        rules.append({'path': '../@ROOT0@_shared'
                      + rng.choice(['', '', '/deep']),
                      'exts': [], 'args': [rng.randrange(100)], 'kwargs': {}})
    return {'roots': roots, 'rules': rules,
            'ctor': {'nest': rng.random() < 0.6, 'trim': rng.random() < 0.5},
            'calls': calls, 'magic': magic, 'hidden': hidden,
            'outside': outside,
            # the k-th handle built re-enters the populator (see the runner)
            'reenter': rng.randrange(4) if rng.random() < 0.15 else None}


def gen_cases(tier, seed):
    for i in range(3 if tier == 'quick' else 48):
        rng = random.Random(f'C16/scale/{seed}/{tier}/{i}')
        case = gen_one(rng, tier)
        case['ctor']['nest'] = True
        case['calls'] = [{'root': 0, 'nest': None, 'trim': None,
                          'root_by_arg': False} for _ in range(20)]
        yield case
    n = 2000 if tier == 'quick' else 16 * 5000
    for i in range(n):
        case = gen_one(random.Random(f'C16/{seed}/{tier}/{i}'), tier,
                       # names containing glob magic characters ([ ] ? *),
                       # also in the name of the root directory itself
                       magic=i % 4 == 1,
                       # names beginning with "." (hidden by convention)
                       hidden=i % 16 == 3)
        # the factory may build handles that are falsy objects
        case['falsy_handles'] = i % 5 == 0
        yield case


def expected_population(root, rules, trim):
    """Independent walk: returns (status, [per rule: dict key -> [paths]],
    allowed directory keys)."""
    per_rule = []
    dir_keys = set()
    for rule in rules:
        # 'x/' and 'x/.' name what 'x' names, also when x is a file
        full = os.path.normpath(os.path.join(root, rule['path']))
        if not os.path.exists(full):
            per_rule.append({})
            continue
        if not os.path.isdir(full):
            return 'ValueError', per_rule, dir_keys
        rel = os.path.normpath(os.path.relpath(full, root))
        parts = rel.split(os.sep)
        if rel != os.curdir:
            # (a rule on the root itself: the root is the map that is being
            # populated, it has no key of its own)
            for i in range(1, len(parts) + 1):
                dir_keys.add('/'.join(parts[:i]))
        produced = collections.defaultdict(list)
        for dirpath, dirnames, filenames in os.walk(full):
            for d in dirnames:
                dir_keys.add(os.path.normpath(os.path.relpath(
                    os.path.join(dirpath, d), root)).replace(os.sep, '/'))
            for f in filenames:
                path = os.path.join(dirpath, f)
                if rule['exts'] and os.path.splitext(f)[1] not in rule['exts']:
                    continue
                key = os.path.normpath(os.path.relpath(path, root)).replace(
                    os.sep, '/')
                if trim:
                    key = os.path.splitext(key)[0]
                produced[key].append(os.path.normpath(path))
        per_rule.append(dict(produced))
    return 'ok', per_rule, dir_keys


def run_case(case):
    desper = import_desper()
    res = Res()
    tmp = tempfile.mkdtemp(prefix='vf-c16-')
    try:
        _run(case, desper, res, tmp)
    finally:
        shutil.rmtree(tmp, ignore_errors=True)
    return res


def _run(case, desper, res, tmp):
    roots = []
    for i, tree in enumerate(case['roots']):
        root = os.path.join(tmp, f'ro[o]t{i}' if case.get('magic')
                            and len(case['roots'][0]['files']) % 2 else
                            f'root{i}')
        os.makedirs(root)
        for d in tree['dirs']:
            os.makedirs(os.path.join(root, d), exist_ok=True)
        for f in tree['files']:
            os.makedirs(os.path.dirname(os.path.join(root, f)), exist_ok=True)
            with open(os.path.join(root, f), 'w') as fout:
                fout.write('x')
        roots.append(root)
    if case.get('outside'):
        base = os.path.basename(roots[0])
        for f in case['outside']:
            path = os.path.join(tmp, base + '_shared', f)
            os.makedirs(os.path.dirname(path), exist_ok=True)
            with open(path, 'w') as fout:
                fout.write('x')
        case = dict(case, rules=[
            dict(r, path=r['path'].replace('@ROOT0@', base))
            for r in case['rules']])
        res.tags['rule_directory_outside_the_root'].add(True)

    class RecHandle(desper.Handle):
        def __init__(self, rule_index, path, args, kwargs):
            # (any spelling of the file's path will do; a relative one
            # is meant from the working directory of the population)
            self.rec = (rule_index, os.path.realpath(os.path.abspath(path)),
                        tuple(args), dict(kwargs))

        def load(self):
            return self.rec

    for flag in ('magic', 'hidden'):
        if case.get(flag):
            res.tags['special_names'].add(flag)
    if case.get('falsy_handles'):
        RecHandle.__len__ = lambda self: 0
        res.tags['falsy_handles'].add(True)

    reenter = {'left': case.get('reenter')}

    def factory_for(index):
        def factory(path, *args, **kwargs):
            res.stats['instantiations'] += 1
            if reenter['left'] is not None:
                reenter['left'] -= 1
                if reenter['left'] < 0:
                    # a "bundle" resource: its factory indexes another
                    # directory into a map of its own with the same
                    # populator and other options, while the outer
                    # population is still at work (which must not notice)
                    reenter['left'] = None
                    res.tags['populator_reentered_from_a_factory'].add(True)
                    try:
                        pop(desper.ResourceMap(), root=roots[-1],
                            nest_on_conflict=not case['ctor']['nest'],
                            trim_extensions=not case['ctor']['trim'])
                    except ValueError:
                        pass    # (a rule names a regular file over there)
            return RecHandle(index, path, args, kwargs)
        return factory

    pop = desper.DirectoryResourcePopulator(
        roots[0], nest_on_conflict=case['ctor']['nest'],
        trim_extensions=case['ctor']['trim'])
    for i, rule in enumerate(case['rules']):
        pop.add_rule(rule['path'], factory_for(i), *rule['args'],
                     file_exts=rule['exts'], **rule['kwargs'])
    rmap = desper.ResourceMap()
    allowed_files = set()
    allowed_dirs = set()
    flags = set()

    def fail(at, kind, what, expected, observed, **kw):
        res.div(at, kind, what, expected=expected, observed=observed, **kw)

    for at, call in enumerate(case['calls']):
        root = roots[call['root']]
        if at and call.get('add_file'):
            tree = case['roots'][call['root']]
            where = sorted(tree['dirs'], key=lambda d: -d.count('/'))
            target = os.path.join(root, where[0] if where else '',
                                  f'late{at}.txt')
            with open(target, 'w') as fout:
                fout.write('x')
            res.tags['file_added_between_populations'].add(True)
        plain_root = root
        spelling = call.get('spelling')
        parent, base = os.path.split(root)
        if spelling == 'dotdot':
            os.makedirs(os.path.join(parent, 'zz'), exist_ok=True)
            root = os.path.join(parent, 'zz', os.pardir, base)
        elif spelling == 'double':
            root = parent + os.sep + os.sep + base
        elif spelling == 'slashdot':
            root = os.path.join(parent, os.curdir, base)
        elif spelling == 'relative':
            root = base
        elif spelling == 'dot_relative':
            root = os.path.join(os.curdir, base)
        elif spelling == 'symlink':
            # the root is reached through a symbolic link (keys are
            # relative to the root AS GIVEN)
            root = os.path.join(parent, f'link{at}_{base}')
            if not os.path.lexists(root):
                os.symlink(plain_root, root)
        elif spelling in ('cwd_dot', 'cwd_dotslash', 'cwd_empty'):
            # the root IS the working directory
            root = {'cwd_dot': os.curdir, 'cwd_dotslash': os.curdir + os.sep,
                    'cwd_empty': ''}[spelling]
        if spelling:
            res.tags['root_spelling'].add(spelling)
        if call.get('trailing_sep') and root:
            # ('' + separator would be the root of the file system)
            root = root + os.sep
            res.tags['root_with_trailing_separator'].add(True)
        nest = case['ctor']['nest'] if call['nest'] is None else call['nest']
        trim = case['ctor']['trim'] if call['trim'] is None else call['trim']
        status, per_rule, dir_keys = expected_population(
            plain_root, case['rules'], trim)
        # what was visible before (for the conflict clause)
        before = {}
        for produced in per_rule:
            for key in produced:
                before.setdefault(key, rmap.get(key))
        kwargs = {}
        if call['nest'] is not None:
            kwargs['nest_on_conflict'] = call['nest']
        if call['trim'] is not None:
            kwargs['trim_extensions'] = call['trim']
        if call['root_by_arg'] or call['root'] != 0 or spelling:
            kwargs['root'] = root
        cwd = os.getcwd()
        try:
            if spelling in ('relative', 'dot_relative'):
                os.chdir(parent)
            elif spelling in ('cwd_dot', 'cwd_dotslash', 'cwd_empty'):
                os.chdir(plain_root)
            pop(rmap, **kwargs)
            outcome = 'ok'
        except ValueError:
            outcome = 'ValueError'
        except Exception as ex:
            outcome = f'{type(ex).__name__}: {ex}'
        finally:
            os.chdir(cwd)
        res.stats['populations'] += 1
        res.tags['outcome'].add(outcome.split(':')[0])
        if outcome != status:
            fail(at, 'population-outcome', 'a rule path that exists but is '
                 'not a directory must be rejected with ValueError, a missing '
                 'one skipped', status, outcome,
                 rules=[r['path'] for r in case['rules']])
            return
        if at > 0:
            flags.add('repeated')
        allowed_dirs |= dir_keys
        if status == 'ValueError':
            # whether the rules before the offending one were already applied
            # when the call is rejected is not stated: only "nothing
            # unexpected appears" is judged for this population
            res.stats['dontcare_partial_population_on_error'] += 1
            for produced in per_rule:
                allowed_files |= set(produced)
            per_rule = []
        # ---- R1/R2/R4 per key
        last_rule = {}
        for ri, produced in enumerate(per_rule):
            for key, paths in produced.items():
                last_rule[key] = ri
                if len(paths) > 1:
                    flags.add('trim-collision')
                if case['rules'][ri]['exts'] and '/' in key:
                    flags.add('nested+filter')
        for key, ri in last_rule.items():
            allowed_files.add(key)
            res.stats['files_checked'] += 1
            rule = case['rules'][ri]
            got = rmap.get(key)
            if not isinstance(got, RecHandle):
                fail(at, 'file-not-reachable', f'file key {key!r} is not '
                     'reachable as a handle after population',
                     'a handle built by rule %d' % ri, repr(got), key=key)
                return
            want_paths = per_rule[ri][key]
            ok = (got.rec[0] == ri and got.rec[1] in {
                os.path.realpath(p) for p in want_paths}
                  and list(got.rec[2]) == rule['args']
                  and got.rec[3] == rule['kwargs'])
            if not ok:
                fail(at, 'wrong-handle', f'handle at {key!r} was not built by '
                     "the (last) rule's factory from the file path and the "
                     "rule's extra arguments",
                     [ri, want_paths, rule['args'], rule['kwargs']],
                     list(got.rec), key=key)
                return
            if rmap[key] is not got.rec and rmap[key] != got.rec:
                fail(at, 'wrong-handle', f'm[{key!r}] is not the resource of '
                     'the visible handle', got.rec, rmap[key])
                return
            parts = key.split('/')
            for i in range(1, len(parts)):
                sub = rmap.get('/'.join(parts[:i]))
                if not isinstance(sub, desper.ResourceMap):
                    fail(at, 'dir-not-map', f'directory {"/".join(parts[:i])!r}'
                         f' on the way to {key!r} is not a sub-map',
                         'ResourceMap', repr(sub))
                    return
            # conflicts
            older = [before[key]] if isinstance(before.get(key), RecHandle) \
                else []
            produced_now = sum(len(p.get(key, [])) for p in per_rule)
            if older or produced_now > 1:
                flags.add('conflict')
                parent = got.parent
                name = parts[-1]
                beneath = [layer[name] for layer in parent.handles.maps[1:]
                           if name in layer] if parent is not None else []
                res.stats['conflicts_checked'] += 1
                if nest:
                    if older and not any(b is older[0] for b in beneath):
                        fail(at, 'nest-lost-older', f'nest_on_conflict: the '
                             f'handle previously at {key!r} is not '
                             'retrievable beneath the new one',
                             list(older[0].rec), [list(b.rec) for b in beneath],
                             key=key)
                        return
                    if len(beneath) + 1 < produced_now + len(older):
                        fail(at, 'nest-lost-older', f'nest_on_conflict: '
                             f'{produced_now} handles were built for {key!r} '
                             f'on top of {len(older)} older one(s) but only '
                             f'{len(beneath)} are beneath the visible one',
                             produced_now + len(older) - 1, len(beneath),
                             key=key)
                        return
                elif older and got is older[0]:
                    fail(at, 'older-still-visible', f'without nesting the '
                         f'older handle at {key!r} must be replaced',
                         'the new handle', list(got.rec))
                    return
                elif older and parent is not None and any(
                        layer.get(name) is older[0]
                        for layer in parent.handles.maps):
                    # (it may have been visible through a deeper layer)
                    fail(at, 'older-kept-beneath', f'without nesting the '
                         f'new handle at {key!r} replaces the older one, '
                         'which must not stay retrievable beneath it',
                         'not stored any more', list(older[0].rec), key=key)
                    return
        # ---- R3: nothing that corresponds to no file/directory
        def walk(m, names):
            for name, sub in m.maps.items():
                key = '/'.join(names + [name])
                res.stats['keys_walked'] += 1
                if key not in allowed_dirs and not any(
                        f.startswith(key + '/') for f in allowed_files):
                    fail(at, 'unexpected-key', f'sub-map {key!r} corresponds '
                         'to no directory under a rule directory', None, key)
                    return False
                if not walk(sub, names + [name]):
                    return False
            for layer in m.handles.maps:
                for name in layer:
                    key = '/'.join(names + [name])
                    res.stats['keys_walked'] += 1
                    if key not in allowed_files:
                        fail(at, 'unexpected-key', f'handle {key!r} '
                             'corresponds to no accepted file under a rule '
                             'directory', None, key)
                        return False
            return True
        if not walk(rmap, []):
            return
    res.nontrivial = bool(flags & {'conflict', 'repeated', 'nested+filter'})
    for f in flags:
        res.tags['flags'].add(f)
    res.sample = {'flags': sorted(flags),
                  'keys': sorted(allowed_files)[:10]}


def shrink(case):
    if len(case['calls']) > 1:
        for i in range(len(case['calls'])):
            yield dict(case, calls=case['calls'][:i] + case['calls'][i + 1:])
    if len(case['rules']) > 1:
        for i in range(len(case['rules'])):
            yield dict(case, rules=case['rules'][:i] + case['rules'][i + 1:])
    for ri, root in enumerate(case['roots']):
        for i in range(len(root['files'])):
            roots = [dict(r) for r in case['roots']]
            roots[ri]['files'] = root['files'][:i] + root['files'][i + 1:]
            yield dict(case, roots=roots)


def classify(case, div):
    key = str(div.get('key') or '')
    if div['kind'] in ('file-not-reachable', 'wrong-handle',
                       'nest-lost-older') and any(
            part.startswith('.') for part in key.split('/')):
        # (wrong-handle: the last rule that should have produced the key
        # skipped the hidden entry, an earlier rule's handle is still there)
        return 'hidden-entries-skipped'
    if div['kind'] == 'population-outcome' and 'NameError' in str(
            div.get('observed')):
        return 'not-a-directory-nameerror'
    return None
