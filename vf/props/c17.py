"""C17 - A static resource map is a faithful, immutable mirror."""
import random

from vf.core import Res
from vf import treelib as tl

ID = 'C17'
LEVEL = 'exploration'
RULE = ('resource trees built by the C11 generator (composite keys, '
        'overwrites, pre-populated maps, layered handles) over names that are '
        'identifiers, keywords, and non-identifiers (spaces, dots, dashes, '
        'leading digits, unicode, empty string), excluding names colliding '
        "with the snapshot's own members (get, _handle_names, dunder names); "
        'snapshot = get_static_map(). The live ResourceMap is the oracle: for '
        'every path item access (and attribute access when all names are '
        'identifiers) must yield the identical loaded object as m[path], '
        'snapshot.get the identical handle object as m.get, name sets per '
        'level must be equal, absent names must raise; then setattr/delattr '
        'of existing handle names, existing map names and new names on every '
        'node must raise, and the whole comparison is repeated; last, the '
        'same attempts through vars(snapshot) where a level has an instance '
        'dictionary. Non-trivial '
        '= >=1 non-identifier name and depth>=2.'
        ' Rounds 9-13 added: the tree changed through a sub-map between two'
        ' snapshots; one sub-map mounted in two places.')
ANCHORS = [
    'desper/model/tree.py::ResourceMap.get_static_map',
    'desper/model/tree.py::StaticResourceMap.__getattribute__',
    'desper/model/tree.py::StaticResourceMap.__getitem__',
    'desper/model/tree.py::StaticResourceMap.get',
    'desper/model/tree.py::StaticResourceMap.__setattr__',
    'desper/model/tree.py::StaticResourceMap.__delattr__',
]
MIN_NONTRIVIAL = {'quick': 300, 'thorough': 5000}
MIN_STATS = {'mirror_comparisons': 20000, 'mutation_attempts': 10000}
ASSUMPTIONS = [
    "don't-care: exception type for absent names and for mutation attempts "
    '(must raise); behaviour of the snapshot after the source map is modified',
    'names colliding with the snapshot\'s own members are excluded, as the '
    'statement does',
]

NAMES = ['a', 'b', 'c', 'data', 'class', 'x y', 'a.b', 'a-b', '1a', 'é', '',
         'def', '_x', 'B', 'ключ', 'a b c',
         # identifiers whose NFKC form differs from them, next to that form
         '\ufb01le', 'file', '\u00b5m', '\u03bcm', '\u00aa', 'e\u0301cole',
         '\uff21\uff22', 'AB',
         # private-looking identifiers (name mangling applies to such names
         # inside class bodies; they are not members of the snapshot)
         '__x', '__secret', '_', '__']


def gen_key(rng, names, maxdepth):
    depth = rng.choices(range(1, maxdepth + 1), [35, 30, 20, 10, 5][:maxdepth])[0]
    return '/'.join(rng.choice(names) for _ in range(depth))


def gen_one(rng, tier):
    big = tier == 'thorough' and rng.random() < 0.5
    names = rng.sample(NAMES, rng.randint(3, 6))
    if rng.random() < 0.3:
        names = [n for n in names if n.isidentifier()] or ['a', 'b']
    maxdepth = 5 if big else 4
    ops = []
    for _ in range(rng.randint(1, 40 if big else 15)):
        k = rng.random()
        if k < 0.8:
            v = 'h' if rng.random() < 0.7 else rng.choice(
                ['m', ['pm', [[gen_key(rng, names, 2), 'h']]]])
            ops.append(['set', gen_key(rng, names, maxdepth), v])
        else:
            ops.append(['layer_set', gen_key(rng, names, 2)])
    # the tree changes below the root with a sub-map as the receiver (an
    # assignment through the sub-map object, a sub-map cleared) after a
    # snapshot of the root was taken: the next snapshot shows the tree as it
    # is then
    if rng.random() < 0.2:
        # one sub-map object reachable in two places of the tree, changed
        # through one of them after a snapshot of the whole was taken
        nested = [op[1] for op in ops if op[0] == 'set' and '/' in op[1]]
        src = rng.choice(nested).rsplit('/', 1)[0] if nested \
            else gen_key(rng, names, 2)
        dst = gen_key(rng, names, 3)
        ops.append(['mount', src, dst])
        for _ in range(rng.randint(1, 2)):
            ops.append(['set_via', rng.choice([src, dst]),
                        gen_key(rng, names, 2), 'h'])
    for _ in range(rng.choice([0, 0, 1, 2])):
        at = rng.randrange(len(ops) + 1)
        if rng.random() < 0.7:
            ops.insert(at, ['set_via', gen_key(rng, names, 2),
                            gen_key(rng, names, 2), 'h'])
        else:
            ops.insert(at, ['clear', gen_key(rng, names, 2)])
    return {'ops': ops, 'absent': [rng.choice(NAMES) + 'q', 'nope', 'zz9']}


def gen_cases(tier, seed):
    for i in range(3 if tier == 'quick' else 48):
        rng = random.Random(f'C17/scale/{seed}/{tier}/{i}')
        depth = rng.choice([33, 40, 60])
        chain = '/'.join(rng.choice(['a', 'b', 'x y']) for _ in range(depth))
        ops = [['set', chain, 'h']]
        for _ in range(15):
            cut = rng.randrange(1, depth)
            ops.append(['set', '/'.join(chain.split('/')[:cut])
                        + '/' + rng.choice(['leaf', 'n o', 'c']),
                        rng.choice(['h', 'h', 'm'])])
        yield {'ops': ops, 'absent': ['nope', 'zz9']}
    n = 3000 if tier == 'quick' else 16 * 5000
    for i in range(n):
        case = gen_one(random.Random(f'C17/{seed}/{tier}/{i}'), tier)
        case['falsy_handles'] = i % 5 == 0
        yield case


def run_case(case):
    res = Res()
    drv = tl.TreeDriver(res, falsy=case.get('falsy_handles', False))
    desper = drv.desper
    for n, op in enumerate(case['ops']):
        if n and n == len(case['ops']) // 2:
            # an earlier snapshot (taken, used and dropped) must not
            # influence later ones
            early = drv.root.get_static_map()
            for name in list(drv.root.maps)[:2]:
                early[name]
            del early
            res.tags['earlier_snapshot_taken'].add(True)
        if op[0] == 'set':
            drv.set(op[1], op[2])
        elif op[0] == 'mount':
            if drv.mount(op[1], op[2]):
                res.tags['map_mounted_twice'].add(True)
        elif op[0] in ('set_via', 'clear'):
            drv.root.get_static_map()       # taken and dropped
            if op[0] == 'set_via':
                done = drv.set_via(op[1], op[2], op[3])
            else:
                done = drv.clear(op[1])
            if done:
                res.tags['changed_through_submap_after_snapshot'].add(op[0])
        else:
            drv.layer_set(op[1])
    root = drv.root
    static = root.get_static_map()
    depth_seen = [0]
    nonident = [False]

    def fail(kind, what, expected, observed, **kw):
        res.div(0, kind, what, expected=expected, observed=observed, **kw)
        return False

    def compare(live, snap, names, phase):
        """live: ResourceMap, snap: StaticResourceMap at the same path."""
        path = '/'.join(names)
        depth_seen[0] = max(depth_seen[0], len(names))
        handle_names = set(live.handles.keys())
        map_names = set(live.maps.keys())
        for name in sorted(handle_names | map_names):
            p = '/'.join(names + [name])
            if not name.isidentifier():
                nonident[0] = True
            want = live[name]
            forms = {'item': lambda: snap[name]}
            if name.isidentifier():
                forms['attr'] = lambda: getattr(snap, name)
            for form, fn in forms.items():
                res.stats['mirror_comparisons'] += 1
                try:
                    got = fn()
                except Exception as ex:
                    return fail('mirror-missing', f'{phase}: snapshot {form} '
                                f'access of {p!r} raised', 'same as the map',
                                repr(ex), path=p)
                if name in handle_names:
                    if got is not want:
                        return fail('mirror-resource', f'{phase}: snapshot '
                                    f'{form} access of {p!r} does not yield '
                                    'the resource the map yields',
                                    repr(want), repr(got), path=p)
                elif not isinstance(got, desper.StaticResourceMap):
                    return fail('mirror-kind', f'{phase}: {p!r} is a sub-map '
                                'in the map but not in the snapshot',
                                'StaticResourceMap', repr(got), path=p)
            res.stats['mirror_comparisons'] += 1
            try:
                got = snap.get(name)
            except Exception as ex:
                return fail('mirror-missing', f'{phase}: snapshot.get of '
                            f'{p!r} raised', 'same as the map', repr(ex))
            if name in handle_names:
                if got is not live.get(name):
                    return fail('mirror-handle', f'{phase}: snapshot.get '
                                f'({p!r}) is not the handle object of the map',
                                repr(live.get(name)), repr(got), path=p)
            else:
                if not compare(live.maps[name], snap[name], names + [name],
                               phase):
                    return False
        # names absent from the map are absent from the snapshot
        for name in case['absent']:
            if name in handle_names or name in map_names:
                continue
            for form in ('item', 'attr', 'get'):
                if form == 'attr' and not name.isidentifier():
                    continue
                res.stats['mirror_comparisons'] += 1
                try:
                    if form == 'item':
                        got = snap[name]
                    elif form == 'attr':
                        got = getattr(snap, name)
                    else:
                        got = snap.get(name)
                    return fail('mirror-extra', f'{phase}: name {name!r} is '
                                f'absent from the map at {path!r} but the '
                                f'snapshot {form} access yields something',
                                'raises', repr(got))
                except (AttributeError, KeyError):
                    pass
                except Exception as ex:
                    return fail('mirror-extra', f'{phase}: absent name '
                                f'{name!r}: unexpected exception',
                                'AttributeError/KeyError', repr(ex))
        return True

    def mutate(live, snap, names):
        handle_names = sorted(live.handles.keys())
        map_names = sorted(live.maps.keys())
        targets = handle_names + map_names + ['brand_new', '_handle_names']
        for name in targets:
            if not isinstance(name, str):
                continue
            for action in ('set', 'del'):
                res.stats['mutation_attempts'] += 1
                try:
                    if action == 'set':
                        setattr(snap, name, 'intruder')
                    else:
                        delattr(snap, name)
                    return fail('mutation-accepted', f'{action}attr'
                                f'({"/".join(names)!r}, {name!r}) did not '
                                'raise', 'raises', 'accepted')
                except Exception:
                    pass
        for name in map_names:
            if not mutate(live.maps[name], snap[name], names + [name]):
                return False
        return True

    def mutate_through_dict(live, snap, names):
        """The same attempts through the instance dictionary, where the
        snapshot has one (run last: a successful one alters the snapshot)."""
        try:
            d = vars(snap)
        except TypeError:
            d = None
        if d is not None:
            for name in sorted(live.handles.keys()) + ['brand_new']:
                res.stats['dict_route_attempts'] += 1
                for action in ('set', 'del'):
                    try:
                        if action == 'set':
                            d[name] = 'intruder'
                        elif name in d:
                            del d[name]
                        else:
                            continue
                    except Exception:
                        continue
                    return fail('mutation-through-dict', f'{action} of '
                                f'attribute {name!r} through vars(snapshot) '
                                f'at {"/".join(names)!r} was accepted',
                                'raises', 'accepted')
        for name in sorted(live.maps.keys()):
            if not mutate_through_dict(live.maps[name], snap.get(name),
                                       names + [name]):
                return False
        return True

    try:
        if compare(root, static, [], 'fresh') and mutate(root, static, []) \
                and compare(root, static, [], 'after mutation attempts'):
            mutate_through_dict(root, static, [])
    except Exception as ex:
        res.div(0, 'harness-observed-exception', f'{type(ex).__name__}: {ex}',
                'no exception', repr(ex))
    res.nontrivial = nonident[0] and depth_seen[0] >= 1 and any(
        '/' in op[1] for op in case['ops'])
    res.tags['max_depth'].add(depth_seen[0])
    res.sample = {'flags': sorted(drv.flags), 'depth': depth_seen[0]}
    return res


def classify(case, div):
    if div['kind'] == 'mutation-through-dict':
        return 'instance-dict-writable'
    return None
