"""CLI of the checks: ./check <ID> [--tier quick|thorough] [--replay FILE].

Exit status: 0 held on everything observed (possibly with KNOWN-FINDING
lines), 1 violation (a line ``VIOLATION property=<ID> replay=<path>`` is
printed), 2 inconclusive (the deciding monitor saw too little).
"""
import argparse
import ast
import gc
import collections
import importlib
import json
import os
import random
import subprocess
import sys
import tempfile
import time
import traceback

VERIF = os.path.dirname(os.path.dirname(os.path.abspath(__file__)))
sys.path.insert(0, VERIF)

from vf import DESPER_ROOT, import_desper          # noqa: E402
from vf import kf as kfmod                         # noqa: E402
from vf.core import fingerprint                    # noqa: E402

MAX_SHRINK_RUNS = 300
SHARDS = 16


def load(pid):
    return importlib.import_module(f'vf.props.{pid.lower()}')


# --------------------------------------------------------------------------
# reach evidence: which lines of the anchor functions were executed
# --------------------------------------------------------------------------

def function_ranges(path):
    """qualname -> (first line, last line) for every def in a file."""
    with open(path) as fin:
        tree = ast.parse(fin.read())
    out = {}

    def walk(node, prefix):
        for child in ast.iter_child_nodes(node):
            if isinstance(child, (ast.FunctionDef, ast.AsyncFunctionDef,
                                  ast.ClassDef)):
                name = prefix + child.name
                if not isinstance(child, ast.ClassDef):
                    # the `def` line runs at import time (before the monitor
                    # starts): only the body counts. Property setters share
                    # the name of the getter: merge their ranges
                    lo, hi = child.lineno, child.end_lineno
                    if name in out:
                        out.setdefault(name + '#parts', [out[name]])
                        out[name + '#parts'].append((lo, hi))
                    out.setdefault(name, (lo, hi))
                walk(child, name + '.')
    walk(tree, '')
    return out


class Reach:
    def __init__(self, anchors):
        self.anchors = anchors
        self.cov = None

    def start(self):
        # sys.monitoring based measurement core: ~10x cheaper than the
        # settrace tracer on 3.12 for this call-heavy workload (line data
        # only, which is all the reach evidence needs)
        os.environ.setdefault('COVERAGE_CORE', 'sysmon')
        import coverage
        self.cov = coverage.Coverage(
            data_file=None, include=[os.path.join(DESPER_ROOT, 'desper', '*')],
            branch=False, config_file=False)
        self.cov.start()

    def stop(self):
        """Return {anchor: [executed, total, [missing lines]]}."""
        self.cov.stop()
        out = {}
        cache = {}
        for anchor in self.anchors:
            rel, qual = anchor.split('::')
            path = os.path.join(DESPER_ROOT, rel)
            if path not in cache:
                try:
                    _, executable, _, missing, _ = self.cov.analysis2(path)
                except Exception:
                    executable, missing = [], []
                cache[path] = (set(executable), set(missing),
                               function_ranges(path))
            executable, missing, ranges = cache[path]
            if qual not in ranges:
                out[anchor] = [0, 0, ['function not found']]
                continue
            parts = ranges.get(qual + '#parts', [ranges[qual]])
            lines = {n for n in executable
                     if any(lo < n <= hi for lo, hi in parts)}
            miss = sorted(lines & missing)
            out[anchor] = [len(lines) - len(miss), len(lines), miss]
        return out


def merge_reach(parts):
    out = {}
    for part in parts:
        for anchor, (done, total, miss) in part.items():
            if anchor not in out:
                out[anchor] = [done, total, set(map(str, miss))]
            else:
                out[anchor][2] &= set(map(str, miss))
                out[anchor][0] = total - len(out[anchor][2])
    return {a: [d, t, sorted(m, key=lambda s: (len(s), s))]
            for a, (d, t, m) in out.items()}


# --------------------------------------------------------------------------
# running cases
# --------------------------------------------------------------------------

class Outcome:
    """Aggregated observations of one worker (or of the whole run)."""

    def __init__(self):
        self.evaluations = 0
        self.nontrivial = set()
        self.stats = collections.Counter()
        self.tags = collections.defaultdict(set)
        self.samples = []
        self.violations = []        # (index, case, divergence)
        self.known = collections.defaultdict(list)   # mechanism -> [index]
        self.errors = []
        self.reach = {}
        self.exhaustive = None

    def dump(self):
        return {
            'evaluations': self.evaluations,
            'nontrivial': sorted(self.nontrivial),
            'stats': dict(self.stats),
            'tags': {k: sorted(v, key=repr) for k, v in self.tags.items()},
            'samples': self.samples,
            'violations': self.violations,
            'known': dict(self.known),
            'errors': self.errors,
            'reach': self.reach,
        }

    def absorb(self, data):
        self.evaluations += data['evaluations']
        self.nontrivial |= set(data['nontrivial'])
        self.stats.update(data['stats'])
        for k, v in data['tags'].items():
            self.tags[k] |= {json.dumps(x) if isinstance(x, (list, dict))
                             else x for x in v}
        self.samples += data['samples'][:1]
        self.violations += [tuple(v) for v in data['violations']]
        for k, v in data['known'].items():
            self.known[k] += v
        self.errors += data['errors']


def judge(mod, case, res):
    """Split the divergences of a case into (violation | None, mechanism)."""
    if res.ok:
        return None, None
    first = res.divs[0]
    mech = kfmod.classify(mod, case, first)
    if mech is not None:
        return None, mech
    return first, None


def run_cases(mod, tier, seed, shard, nshards, limit_s):
    out = Outcome()
    # the budget is counted in CPU time of this process (user + system):
    # a loaded machine must not turn a check into "inconclusive"; a
    # generous wall clock (10x) stays as the safety net
    t0 = time.process_time()
    wall0 = time.time()
    reach = Reach(getattr(mod, 'ANCHORS', []))
    reach.start()
    try:
        for index, case in enumerate(mod.gen_cases(tier, seed)):
            if index % nshards != shard:
                continue
            if time.process_time() - t0 > limit_s \
                    or time.time() - wall0 > 10 * limit_s:
                out.errors.append(f'time budget {limit_s}s (CPU; 10x that '
                                  f'on the wall clock) reached at case '
                                  f'{index}; remaining cases not run')
                break
            try:
                with case_watchdog(tier):
                    res = mod.run_case(case)
            except CaseTimeout:
                # a wall clock only triggers the question; the verdict is
                # taken on logical steps (see did_not_terminate)
                res = did_not_terminate(mod, case, index, out)
                if res is None:
                    continue
            except Exception as ex:
                res = escaped_exception(mod, case, ex)
            out.evaluations += 1
            if out.evaluations % 100 == 0:
                # the classes generated per case are cyclic garbage; left to
                # the generational collector they pile up in
                # __subclasses__() of their bases (abc checks walk those)
                gc.collect()
            out.stats.update(res.stats)
            for k, v in res.tags.items():
                out.tags[k] |= set(v)
            if res.nontrivial:
                out.nontrivial.add(fingerprint(case))
            if len(out.samples) < 3 and res.nontrivial and res.sample:
                out.samples.append({'index': index, 'case': case,
                                    'observed': res.sample})
            violation, mech = judge(mod, case, res)
            if mech is not None:
                out.known[mech].append(index)
            if violation is not None:
                kinds = collections.Counter(
                    v[2]['kind'] for v in out.violations)
                if kinds[violation['kind']] < 3:
                    out.violations.append((index, case, violation))
                out.stats['cases_violating'] += 1
                if out.stats['cases_violating'] >= 60 or len(kinds) >= 6:
                    break
    finally:
        out.reach = reach.stop()
    return out


class CaseTimeout(BaseException):
    """Raised by the per-case wall-clock watchdog (SIGALRM)."""


CASE_WALL_S = {'quick': 90, 'thorough': 180, 'rerun': 600}
STEP_BUDGET = 40_000_000     # entries into desper functions per case; the
                             # largest generated cases need well under 10^7


class case_watchdog:
    def __init__(self, tier):
        self.seconds = CASE_WALL_S.get(tier, 180)
        if tier != 'rerun' and os.environ.get('VF_CASE_WALL_S'):
            self.seconds = float(os.environ['VF_CASE_WALL_S'])

    def _fire(self, signum, frame):
        raise CaseTimeout()

    def __enter__(self):
        import signal
        self.old = signal.signal(signal.SIGALRM, self._fire)
        signal.setitimer(signal.ITIMER_REAL, self.seconds)

    def __exit__(self, *exc):
        import signal
        signal.setitimer(signal.ITIMER_REAL, 0)
        signal.signal(signal.SIGALRM, self.old)
        return False


def did_not_terminate(mod, case, index, out):
    """A case ran into the wall-clock watchdog. Run it again counting the
    entries into desper functions (sys.monitoring, PY_START): if it uses up
    a budget that no generated case comes near, the library did not
    terminate on this input (a divergence, decided on logical steps); if it
    finishes within the budget it was merely slow on a loaded machine
    (inconclusive, never a violation)."""
    from vf.core import Res, StepBudgetExceeded
    mon = sys.monitoring
    tool = 4
    prefix = os.path.join(DESPER_ROOT, 'desper') + os.sep
    state = {'n': 0}

    def on_start(code, offset):
        if not code.co_filename.startswith(prefix):
            return mon.DISABLE
        state['n'] += 1
        if state['n'] > STEP_BUDGET:
            raise StepBudgetExceeded(f'{state["n"]} steps in desper code')

    def on_jump(code, offset, dest):
        # loops that call nothing still jump
        return on_start(code, offset)

    events = mon.events.PY_START | mon.events.JUMP
    mon.use_tool_id(tool, 'vf-termination')
    mon.register_callback(tool, mon.events.PY_START, on_start)
    mon.register_callback(tool, mon.events.JUMP, on_jump)
    mon.set_events(tool, events)
    exceeded = False
    unfinished = False
    try:
        try:
            with case_watchdog('rerun'):
                mod.run_case(case)
        except StepBudgetExceeded:
            exceeded = True
        except CaseTimeout:
            unfinished = True
        except BaseException:       # noqa: B902 - only termination matters
            pass
    finally:
        mon.set_events(tool, 0)
        mon.register_callback(tool, mon.events.PY_START, None)
        mon.register_callback(tool, mon.events.JUMP, None)
        mon.free_tool_id(tool)
        mon.restart_events()
    if unfinished:
        out.errors.append(f'case {index} hit the wall-clock watchdog twice '
                          f'without using up the step budget ({state["n"]} '
                          'function entries and jumps in desper code): not '
                          'judged')
        return None
    if not exceeded:
        out.errors.append(f'case {index} hit the wall-clock watchdog but '
                          f'finished within the step budget ({state["n"]} '
                          'steps in desper code): slow, not judged')
        return None
    res = Res()
    res.div(-1, 'did-not-terminate', 'an operation of this case did not '
            f'finish within {STEP_BUDGET} function entries and jumps in desper '
            '(logical step budget; the largest generated cases stay below '
            '10^7)', 'termination', f'> {STEP_BUDGET} steps')
    return res


def escaped_exception(mod, case, ex):
    """An exception left run_case. If desper code is on the traceback the
    library raised (or let something raise) where the monitor expected a
    value: that is an observation and is reported as a divergence. If no
    desper frame is involved it is a defect of the harness: re-raise."""
    from vf.core import Res
    frames = traceback.extract_tb(ex.__traceback__)
    inside = [f for f in frames if os.path.abspath(f.filename).startswith(
        os.path.join(DESPER_ROOT, 'desper') + os.sep)]
    if not inside:
        raise ex
    res = Res()
    last = inside[-1]
    res.div(-1, 'exception-escaped-from-desper',
            f'{type(ex).__name__}: {ex} raised through '
            f'{os.path.relpath(last.filename, DESPER_ROOT)}:{last.lineno} '
            f'({last.name}) where the monitor expected a result',
            expected='a result', observed=repr(ex),
            traceback=[f'{os.path.basename(f.filename)}:{f.lineno} {f.name}'
                       for f in frames[-6:]])
    return res


def shrink(mod, case, div):
    """Greedy minimisation; every candidate is re-judged by the oracle."""
    runs = 0
    best, best_div = case, div
    if div['kind'] == 'did-not-terminate':
        return best, best_div, runs     # every candidate would run for long

    def still_fails(cand):
        nonlocal runs
        runs += 1
        try:
            with case_watchdog('quick'):
                res = mod.run_case(cand)
        except CaseTimeout:
            return None
        except Exception as ex:
            try:
                res = escaped_exception(mod, cand, ex)
            except Exception:
                return None
        violation, _ = judge(mod, cand, res)
        if violation is not None and violation['kind'] == div['kind']:
            return violation
        return None

    shrinker = getattr(mod, 'shrink', default_shrink)
    if isinstance(case, dict) and case.get('scenario') == 'session':
        from vf import session
        shrinker = session.shrink
    elif isinstance(case, dict) and case.get('scenario') in (
            'reentry', 'overtake', 'disable_in_on_add', 'stale-mark',
            'nested_batch', 'suite', 'unreferenced', 'prepopulated',
            'lineage', 'none-id'):
        shrinker = default_shrink       # small fixed-shape scenarios
    progress = True
    while progress and runs < MAX_SHRINK_RUNS:
        progress = False
        for cand in shrinker(best):
            if runs >= MAX_SHRINK_RUNS:
                break
            got = still_fails(cand)
            if got is not None:
                best, best_div = cand, got
                progress = True
                break
    return best, best_div, runs


def default_shrink(case):
    ops = case.get('ops')
    if not isinstance(ops, list):
        return
    # drop the tail after the divergence first, then single operations
    for n in range(len(ops) - 1, -1, -1):
        cand = dict(case)
        cand['ops'] = ops[:n] + ops[n + 1:]
        yield cand


def desper_rev():
    try:
        rev = subprocess.run(
            ['git', '-C', DESPER_ROOT, 'rev-parse', '--short', 'HEAD'],
            capture_output=True, text=True, timeout=20).stdout.strip()
        dirty = subprocess.run(
            ['git', '-C', DESPER_ROOT, 'status', '--porcelain', '--', 'desper'],
            capture_output=True, text=True, timeout=20).stdout.strip()
        return rev + ('+dirty' if dirty else '')
    except Exception:
        return 'unknown'


def replay_dir():
    """replays/ under /verif, unless a run against a scratch copy of the
    tree (self-validation) redirects its witnesses elsewhere."""
    return os.environ.get('VF_REPLAY_DIR') or os.path.join(VERIF, 'replays')


def write_replay(pid, tier, seed, index, case, div):
    os.makedirs(replay_dir(), exist_ok=True)
    rel = os.path.join(os.path.relpath(replay_dir(), VERIF),
                       f'{pid}-{tier}-{seed}-{index}.json')
    with open(os.path.join(VERIF, rel), 'w') as fout:
        json.dump({'property': pid, 'tier': tier, 'seed': seed,
                   'index': index, 'case': case, 'divergence': div,
                   'desper_rev': desper_rev(),
                   'PYTHONHASHSEED': os.environ.get('PYTHONHASHSEED')},
                  fout, indent=1, default=repr)
    return rel


def worker_main(args):
    mod = load(args.id)
    shard, nshards = map(int, args.worker.split('/'))
    import_desper()
    out = run_cases(mod, args.tier, args.seed, shard, nshards, args.limit)
    with open(args.out, 'w') as fout:
        json.dump(out.dump(), fout, default=repr)
    return 0


def replay_main(args):
    mod = load(args.id)
    import_desper()
    with open(args.replay) as fin:
        data = json.load(fin)
    case = data['case'] if 'case' in data else data
    try:
        res = mod.run_case(case)
    except Exception as ex:
        res = escaped_exception(mod, case, ex)
    violation, mech = judge(mod, case, res)
    print(json.dumps({'divergences': res.divs[:5], 'sample': res.sample},
                     indent=1, default=repr))
    if mech is not None:
        print(f'KNOWN-FINDING: property={mod.ID} {kfmod.what(mod.ID, mech)}')
    if violation is not None:
        print(f'VIOLATION property={mod.ID} replay={args.replay}')
        return 1
    print(f'replay of {args.replay}: no divergence')
    return 0


def main(argv=None):
    ap = argparse.ArgumentParser()
    ap.add_argument('id')
    ap.add_argument('--tier', default=os.environ.get('VERIF_TIER') or 'quick',
                    choices=['quick', 'thorough'])
    ap.add_argument('--seed', type=int,
                    default=int(os.environ.get('VERIF_SEED') or 0))
    ap.add_argument('--replay')
    ap.add_argument('--worker')
    ap.add_argument('--out')
    ap.add_argument('--limit', type=float, default=None)
    ap.add_argument('--shards', type=int, default=None)
    ap.add_argument('--no-evidence', action='store_true')
    args = ap.parse_args(argv)
    args.id = args.id.upper()

    # determinism of set/dict orders that depend on str hashes
    if os.environ.get('PYTHONHASHSEED') is None:
        env = dict(os.environ, PYTHONHASHSEED='0')
        return subprocess.call([sys.executable, '-m', 'vf.run']
                               + (argv or sys.argv[1:]), env=env, cwd=VERIF)

    if args.limit is None:
        args.limit = 300 if args.tier == 'quick' else 1500
    if args.worker:
        return worker_main(args)
    if args.replay:
        return replay_main(args)

    mod = load(args.id)
    desper = import_desper()
    import glob
    for stale in glob.glob(os.path.join(
            replay_dir(), f'{mod.ID}-{args.tier}-*.json')):
        os.remove(stale)
    t0 = time.time()
    total = Outcome()
    inconclusive = []
    nshards = args.shards or (1 if args.tier == 'quick' else SHARDS)

    if nshards == 1:
        total = run_cases(mod, args.tier, args.seed, 0, 1, args.limit)
    else:
        tmp = tempfile.mkdtemp(prefix='vf-shards-')
        procs = []
        try:
            for shard in range(nshards):
                out = os.path.join(tmp, f'{shard}.json')
                cmd = [sys.executable, '-m', 'vf.run', args.id,
                       '--tier', args.tier, '--seed', str(args.seed),
                       '--worker', f'{shard}/{nshards}', '--out', out,
                       '--limit', str(args.limit)]
                procs.append((shard, out, subprocess.Popen(
                    cmd, cwd=VERIF, stdout=subprocess.PIPE,
                    stderr=subprocess.STDOUT, text=True)))
            reaches = []
            for shard, out, proc in procs:
                try:
                    stdout, _ = proc.communicate(
                        timeout=args.limit * 10 + 300)
                except subprocess.TimeoutExpired:
                    proc.kill()
                    proc.communicate()
                    inconclusive.append(f'shard {shard} hit the wall-clock '
                                        'safety net')
                    continue
                if proc.returncode != 0 or not os.path.exists(out):
                    inconclusive.append(
                        f'shard {shard} failed (exit {proc.returncode}): '
                        + stdout[-2000:])
                    continue
                with open(out) as fin:
                    data = json.load(fin)
                total.absorb(data)
                reaches.append(data['reach'])
            total.reach = merge_reach(reaches)
        finally:
            import shutil
            shutil.rmtree(tmp, ignore_errors=True)

    # ---------------------------------------------------------------- verdict
    status = 0
    for mech, indices in sorted(total.known.items()):
        print(f'KNOWN-FINDING: property={mod.ID} {kfmod.what(mod.ID, mech)} '
              f'[{len(indices)} case(s), e.g. #{indices[0]}]')

    violations = sorted(total.violations, key=lambda v: v[0])
    shown = set()
    for index, case, div in violations:
        if div['kind'] in shown:
            continue
        shown.add(div['kind'])
        small, small_div, runs = shrink(mod, case, div)
        path = write_replay(mod.ID, args.tier, args.seed, index, small,
                            small_div)
        print(f'divergence [{small_div["kind"]}] {small_div["what"]}\n'
              f'  expected: {small_div["expected"]}\n'
              f'  observed: {small_div["observed"]}\n'
              f'  (case #{index}, minimised in {runs} re-executions)')
        print(f'VIOLATION property={mod.ID} replay={path}')
        status = 1

    minimum = getattr(mod, 'MIN_NONTRIVIAL', {}).get(args.tier, 2)
    if len(total.nontrivial) < max(2, minimum):
        inconclusive.append(f'only {len(total.nontrivial)} distinct '
                            f'non-trivial cases (minimum {minimum})')
    # Reach: a single anchor that is not executed (e.g. a private helper a
    # refactoring removed or no longer uses) is reported in the evidence but
    # does not invalidate a run whose monitors observed the behaviour through
    # the public API; a run that reached NONE of its anchors observed nothing.
    unreached = [a for a, (done, tot, miss) in total.reach.items()
                 if done == 0]
    if total.reach and len(unreached) == len(total.reach):
        inconclusive.append('none of the anchor functions was executed: '
                            + ', '.join(unreached))
    for anchor in unreached:
        print(f'note: anchor {anchor} not executed (renamed, removed or '
              'unused in this tree)')
    for key, least in getattr(mod, 'MIN_STATS', {}).items():
        if total.stats.get(key, 0) < least:
            inconclusive.append(f'monitor counter {key}='
                                f'{total.stats.get(key, 0)} < {least}')
    inconclusive += total.errors

    wall = time.time() - t0
    if not args.no_evidence:
        write_evidence(mod, args, total, wall, len(violations), inconclusive)

    print(f'{mod.ID} {args.tier} seed={args.seed}: {total.evaluations} cases, '
          f'{len(total.nontrivial)} distinct non-trivial, '
          f'{sum(total.stats.values())} monitor events, '
          f'{len(violations)} violation(s), {wall:.1f}s '
          f'[desper {desper_rev()} from {DESPER_ROOT}]')
    if status == 0 and inconclusive:
        for reason in inconclusive:
            print(f'INCONCLUSIVE property={mod.ID} reason={reason}')
        status = 2
    return status


def write_evidence(mod, args, total, wall, nviol, inconclusive):
    exhaustive = getattr(mod, 'EXHAUSTIVE', {}).get(args.tier)
    coverage = {
        'evaluations': total.evaluations,
        'distinct_nontrivial': len(total.nontrivial),
        'rule': mod.RULE,
        'samples': total.samples[:3],
        'monitor_counters': dict(sorted(total.stats.items())),
        'distinct_observed': {k: len(v) for k, v in sorted(total.tags.items())},
        'distinct_observed_examples': {
            k: sorted(v, key=repr)[:8] for k, v in sorted(total.tags.items())},
        'anchor_reach': {a: {'executed_lines': d, 'executable_lines': t,
                             'never_executed': m}
                         for a, (d, t, m) in sorted(total.reach.items())},
        'known_findings_matched': {k: len(v) for k, v in total.known.items()},
        'inconclusive_reasons': inconclusive,
        'desper_rev': desper_rev(),
        'desper_root': DESPER_ROOT,
    }
    coverage['exhaustive'] = False
    if exhaustive:
        # a finite sub-space is enumerated completely by this run; the run
        # as a whole also contains sampled cases, hence exhaustive=false
        coverage['completely_enumerated_subspace'] = exhaustive
    extra = getattr(mod, 'evidence_extra', None)
    if extra:
        coverage.update(extra(args.tier, total))
    evidence = {
        'property_id': mod.ID, 'tier': args.tier, 'seed': args.seed,
        'level': mod.LEVEL, 'coverage': coverage,
        'assumptions': list(getattr(mod, 'ASSUMPTIONS', [])) + [
            'verdict = held on the executions observed, not a proof',
            'CPython 3.12 reference counting; single thread'],
        'wall_s': round(wall, 2), 'violations': nviol,
    }
    os.makedirs(os.path.join(VERIF, 'evidence'), exist_ok=True)
    with open(os.path.join(VERIF, 'evidence', f'{mod.ID}.json'), 'w') as fout:
        json.dump(evidence, fout, indent=1, default=repr)


if __name__ == '__main__':
    try:
        sys.exit(main())
    except SystemExit:
        raise
    except BaseException:
        traceback.print_exc()
        print('INCONCLUSIVE reason=harness crashed')
        sys.exit(2)
