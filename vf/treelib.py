"""Resource-tree workloads shared by C11, C12 and C17: a nested-dict reference
model of a ResourceMap, counting handles and a full consistency sweep."""
from vf import import_desper


class MNode:
    """Model node: a handle (kind 'h') or a map (kind 'm')."""

    def __init__(self, kind, obj=None):
        self.kind = kind
        self.obj = obj              # real Handle / ResourceMap (None=implicit)
        self.children = {}          # maps only: name -> MNode
        self.beneath = []           # handles only: shadowed older handles


def make_handle_class(desper, falsy=False):
    class CountingHandle(desper.Handle):
        """load() is counted and returns a fresh object per call."""

        def __init__(self, uid, value_factory=None):
            self.uid = uid
            self.loads = 0
            self.clears = 0
            self.values = []
            self.value_factory = value_factory

        def load(self):
            self.loads += 1
            value = (self.value_factory() if self.value_factory
                     else ['resource', self.uid, self.loads])
            self.values.append(value)
            return value

        def clear(self):
            self.clears += 1
            super().clear()

        def __repr__(self):
            return f'<H{self.uid}>'
    if falsy:
        # handles (and maps, see TreeDriver) that are falsy objects
        CountingHandle.__len__ = lambda self: 0
    return CountingHandle


class TreeDriver:
    """Applies tree operations to a real ResourceMap and to the model."""

    def __init__(self, res, falsy=False):
        self.desper = import_desper()
        self.res = res
        self.Handle = make_handle_class(self.desper, falsy)
        if falsy:
            res.tags['falsy_handles'].add(True)
        self.root = self.desper.ResourceMap()
        self.model = MNode('m', self.root)
        self.nuid = 0
        self.flags = set()
        self.ever = set()           # every path that was ever present
        self.displaced = []         # maps overwritten under their name

    # ---- values
    def new_handle(self):
        self.nuid += 1
        return self.Handle(self.nuid)

    def new_value(self, spec):
        """spec: 'h' | 'm' | ['pm', [[key, 'h'|'m'], ...]] -> (real, MNode)."""
        if spec == 'h':
            h = self.new_handle()
            return h, MNode('h', h)
        if isinstance(spec, list) and spec[0] == 'existing':
            return spec[1], spec[2]
        if isinstance(spec, list) and spec[0] == 'reuse':
            # a map object that was part of the tree until another value
            # was assigned under its name (it is in no map any more, but
            # may still record where it used to be)
            if self.displaced:
                real, node = self.displaced.pop(spec[1] % len(self.displaced))
                self.flags.add('displaced-map-assigned-again')
                return real, node
            spec = 'm'
        m = self.desper.ResourceMap()
        node = MNode('m', m)
        if isinstance(spec, list):
            sub = TreeDriver.__new__(TreeDriver)
            sub.__dict__.update(self.__dict__)
            sub.root, sub.model = m, node
            for key, kind in spec[1]:
                sub.set(key, kind)
            self.nuid = sub.nuid
        return m, node

    # ---- navigation in the model
    def find(self, path):
        node = self.model
        if path is None:
            return node
        for name in path.split('/'):
            if node is None or node.kind != 'm':
                return None
            node = node.children.get(name)
        return node

    def real_map(self, path):
        m = self.root
        if path is None:
            return m
        for name in path.split('/'):
            m = m.maps[name]
        return m

    # ---- operations
    def set(self, key, spec):
        real, node = self.new_value(spec)
        names = key.split('/')
        target = self.model
        for name in names[:-1]:
            child = target.children.get(name)
            if child is None or child.kind != 'm':
                if child is not None:
                    self.flags.add('handle-to-map')
                child = MNode('m', None)
                target.children[name] = child
                self.flags.add('implicit-map')
            target = child
        old = target.children.get(names[-1])
        if old is not None and old.kind == 'm' and old is not node:
            try:
                holder = self.root
                for name in names[:-1]:
                    holder = holder.maps[name]
                self.displaced.append((holder.maps[names[-1]], old))
            except KeyError:
                pass
        if old is not None and old.kind != node.kind:
            self.flags.add('handle-to-map' if node.kind == 'm'
                           else 'map-to-handle')
        if node.kind == 'h' and old is not None and old.kind == 'h':
            node.beneath = old.beneath      # only the visible layer changes
        target.children[names[-1]] = node
        if len(names) >= 3:
            self.flags.add('deep-key')
        self.root[key] = real
        return real

    def set_via(self, path, key, spec):
        """Assign through the sub-map object at ``path`` (not through the
        root): the tree below the root changes without the root's own
        __setitem__ being involved."""
        node = self.find(path)
        if node is None or node.kind != 'm':
            return False
        real_sub = self.real_map(path)
        saved_root, saved_model = self.root, self.model
        self.root, self.model = real_sub, node
        try:
            self.set(key, spec)
        finally:
            self.root, self.model = saved_root, saved_model
        self.flags.add('set-via-submap')
        return True

    def mount(self, src, dst):
        """The sub-map object found at ``src`` is ALSO assigned under
        ``dst`` (one map object reachable in two places; its back-link can
        only name one of them, which is not judged)."""
        node = self.find(src)
        if node is None or node.kind != 'm' or src == dst \
                or (dst + '/').startswith(src + '/') \
                or (src + '/').startswith(dst + '/'):
            return False
        self.set(dst, ['existing', self.real_map(src), node])
        self.flags.add('map-mounted-twice')
        return True

    def reassign(self, key):
        """Assign the object already stored under ``key`` to ``key`` again
        (same map, same name): nothing may change."""
        node = self.find(key)
        if node is None:
            return False
        real = self.root.get(key)
        if real is None:
            return False
        self.root[key] = real
        self.flags.add('reassign-same')
        return True

    def layer_set(self, key):
        """What DirectoryResourcePopulator does on a conflict: a new first
        layer in the parent's handles, then a plain assignment."""
        node = self.find(key)
        if node is None or node.kind != 'h':
            return False
        parts = key.split('/')
        parent_path = '/'.join(parts[:-1]) if len(parts) > 1 else None
        name = parts[-1]
        pm = self.real_map(parent_path)
        pm.handles.maps.insert(0, {})
        h = self.new_handle()
        new = MNode('h', h)
        new.beneath = [node.obj] + node.beneath
        self.find(parent_path).children[name] = new
        # every other visible handle of that map is now one layer deeper too,
        # which changes nothing for the reads
        self.root[key] = h
        self.flags.add('layered')
        return True

    def clear(self, path):
        node = self.find(path)
        if node is None or node.kind != 'm':
            return None
        real = self.real_map(path)
        before = {}
        for name, child in node.children.items():
            before[name] = real.get(name)
        if any(c.kind == 'h' and c.beneath for c in node.children.values()):
            self.flags.add('clear-layered')
        # handles kept retrievable beneath newer ones (deeper layers of the
        # ChainMap) are children of this map as well
        for depth, layer in enumerate(real.handles.maps[1:], 1):
            for name, h in layer.items():
                if h.parent is real and not any(h is v for v in
                                                before.values()):
                    before[f'{name} (layer {depth})'] = h
                    self.flags.add('clear-shadowed-child')
        real.clear()
        node.children = {}
        self.flags.add('clear')
        return real, before


MISSING = object()


def sweep(drv, at, extra_absent=()):
    """Full consistency sweep; returns False after recording a divergence."""
    res, root = drv.res, drv.root
    n = 0

    def fail(kind, what, expected, observed, **kw):
        res.div(at, kind, what, expected=expected, observed=observed, **kw)
        return False

    def reads(path):
        """The three access forms; each -> ('ok', obj) | ('KeyError',) |
        ('other', repr)."""
        out = []
        for form in ('item', 'chain', 'get'):
            try:
                if form == 'item':
                    v = root[path]
                elif form == 'chain':
                    v = root
                    for name in path.split('/'):
                        v = v[name]
                else:
                    v = root.get(path, MISSING)
                    if v is MISSING:
                        out.append(('KeyError',))
                        continue
                    if isinstance(v, drv.desper.Handle):
                        v = v()
                out.append(('ok', v))
            except KeyError:
                out.append(('KeyError',))
            except Exception as ex:
                out.append(('other', f'{type(ex).__name__}: {ex}'))
        return out

    def walk(node, real, names):
        nonlocal n
        path = '/'.join(names) if names else None
        for name, child in node.children.items():
            p = '/'.join(names + [name])
            r = reads(p)
            n += 3
            if child.kind == 'h':
                want = child.obj()
                exp = f'resource of {child.obj!r}'
            else:
                want = None
                exp = 'a sub-map'
            got_get = root.get(p, MISSING)
            ok = all(x[0] == 'ok' for x in r)
            if ok and child.kind == 'h':
                ok = all(x[1] is want for x in r) and got_get is child.obj
            elif ok:
                ok = (isinstance(r[0][1], drv.desper.ResourceMap)
                      and r[0][1] is r[1][1] is r[2][1]
                      and (child.obj is None or r[0][1] is child.obj))
            if not ok:
                return fail('path-mismatch', f"m[{p!r}], chained [] and "
                            f"get({p!r})() do not denote the same {exp}",
                            exp, [_show(x) for x in r] + [repr(got_get)],
                            path=p, node_kind=child.kind)
            # back-link of the reachable node
            obj = got_get
            holder = real
            n += 1
            if obj.parent is not holder or obj.key != name:
                return fail('backlink', f'node at {p!r} does not record its '
                            'containing map and name',
                            ['<containing map>', name],
                            [_show_parent(obj.parent, holder), obj.key],
                            path=p, node_kind=child.kind,
                            implicit=child.obj is None)
            # a name is a handle or a map, never both (any layer)
            in_handles = any(name in layer for layer in real.handles.maps)
            in_maps = name in real.maps
            n += 1
            if in_handles and in_maps:
                return fail('name-both-kinds', f'{p!r} is stored both as a '
                            'handle and as a sub-map', child.kind,
                            'both', path=p)
            if child.kind == 'm':
                if not walk(child, obj, names + [name]):
                    return False
        # nothing reachable that the model does not know
        visible = set(real.handles.keys()) | set(real.maps.keys())
        n += 1
        if visible != set(node.children):
            return fail('unexpected-names', f'names visible under {path!r}',
                        sorted(node.children), sorted(visible), path=path)
        return True

    if not walk(drv.model, root, []):
        return False

    # absent / too-long paths: get's default <=> [] raises KeyError
    absent = set(extra_absent)

    top = list(drv.model.children)

    def collect(node, names):
        for name, child in node.children.items():
            p = '/'.join(names + [name])
            drv.ever.add(p)
            absent.add(p + '/zz')
            absent.add(p + 'zz')
            # a path whose middle cannot be walked but whose last component
            # names something that exists elsewhere
            for other in top[:3]:
                absent.add('zz/' + other)
                absent.add(p + '/zz/' + other)
                if child.kind == 'h':
                    absent.add(p + '/' + other)
            if child.kind == 'm':
                collect(child, names + [name])
    collect(drv.model, [])
    absent |= {'zz', 'zz/a', ''}
    # paths that used to exist must be gone for every access form
    absent |= drv.ever
    for p in sorted(absent):
        node = drv.find(p)
        if node is not None:
            continue
        n += 2
        try:
            got = root.get(p, MISSING)
            got_kind = 'default' if got is MISSING else f'value {got!r}'
        except Exception as ex:
            got_kind = f'raised {type(ex).__name__}: {ex}'
        try:
            root[p]
            item_kind = 'value'
        except KeyError:
            item_kind = 'KeyError'
        except Exception as ex:
            item_kind = f'raised {type(ex).__name__}: {ex}'
        if not (got_kind == 'default' and item_kind == 'KeyError'):
            return fail('absent-path', f'absent path {p!r}: get must return '
                        'its default exactly when [] raises KeyError',
                        ['default', 'KeyError'], [got_kind, item_kind],
                        path=p)
    res.stats['tree_comparisons'] += n
    res.stats['sweeps'] += 1
    return True


def _show(x):
    return x[0] if len(x) == 1 else f'{x[0]}:{x[1]!r}'


def _show_parent(parent, holder):
    if parent is None:
        return None
    return '<containing map>' if parent is holder else f'<other {parent!r}>'
