"""Shared workload vocabulary, reference model and driver for the World
properties (C01, C02, C05; C19 re-uses the generator and the model).

A *case* is pure data::

    {'classes': [{'base': int|None, 'shape': 'arp'|'ap'|'rp'|'p'|'', 'rename': bool}],
     'ids': [explicit ids...],
     'procs': int,                      # number of logging processors (C05)
     'ops': [[name, ...], ...]}

Entity references inside operations: ['x', k] explicit id pool entry,
['a', k] the k-th automatically assigned id so far (modulo), ['n', k] an id
that is never used for attaching anything.
"""
import collections

from vf import import_desper
from vf.core import tup, HarnessError

SHAPES = ('arp', 'ap', 'rp', 'p', '')
KIND_EVENT = {'a': 'on_add', 'r': 'on_remove', 'p': 'probe'}
KIND_NAME = {'a': 'add', 'r': 'remove', 'p': 'probe'}
RENAMED = {'a': 'added', 'r': 'removed', 'p': 'probed'}


def _same_class(self, other):
    return type(other) is type(self)


def _const_hash(self):
    return 11


# --------------------------------------------------------------------------
# generation
# --------------------------------------------------------------------------

def gen_classes(rng, n, shapes, depth=3):
    classes = []
    depths = []
    for i in range(n):
        base = None
        if i and rng.random() < 0.6:
            cands = [j for j in range(i) if depths[j] < depth]
            if cands:
                base = rng.choice(cands)
        depths.append(1 if base is None else depths[base] + 1)
        classes.append({'base': base, 'shape': rng.choice(shapes),
                        'rename': rng.random() < 0.3,
                        # components may be falsy objects
                        'falsy': rng.choice([None] * 5 + ['bool', 'len']),
                        # ... or value-like: all instances of the class equal
                        # (and equally hashed), or __eq__ without __hash__
                        'eq': rng.choice([None] * 6 + ['equal', 'unhashable'])
                        })
    return classes


ID_POOL = [1, 2, 3, 'e', ['t', 1], 'f', 4, 1.0, True, ['t', 2], 0, -1]


def gen_ids(rng, n, aliases=True):
    pool = [1, 2] + rng.sample(ID_POOL[2:7], max(0, n - 2))
    if aliases and rng.random() < 0.1:
        pool.append(rng.choice([1.0, True]))
    return pool[:max(n, 2)] if not aliases else pool


def gen_ref(rng, case, auto_bias=0.5):
    k = rng.random()
    if k < auto_bias:
        return ['a', rng.randrange(4)]
    if k < 0.97:
        return ['x', rng.randrange(len(case['ids']))]
    return ['n', rng.randrange(2)]


def gen_ops(rng, case, n, weights):
    """Append ``n`` random operations to case['ops'] following ``weights``
    (dict op name -> weight)."""
    names = list(weights)
    w = [weights[k] for k in names]
    ncls = len(case['classes'])
    ops = case.setdefault('ops', [])
    enabled = True
    for _ in range(n):
        name = rng.choices(names, w)[0]
        if name == 'create':
            k = rng.choices([0, 1, 2, 3], [3, 50, 35, 12])[0]
            comps = rng.sample(range(ncls), min(k, ncls))
            ref = None if rng.random() < 0.55 else [
                'x', rng.randrange(len(case['ids']))]
            ops.append(['create', comps, ref])
        elif name == 'add':
            ops.append(['add', gen_ref(rng, case), rng.randrange(ncls)])
        elif name == 'readd':
            ops.append(['readd', gen_ref(rng, case), rng.randrange(8)])
        elif name == 'remove':
            ops.append(['remove', gen_ref(rng, case), rng.randrange(ncls)])
        elif name == 'delete':
            ops.append(['delete', gen_ref(rng, case), False])
        elif name == 'delete_now':
            ops.append(['delete', gen_ref(rng, case), True])
        elif name == 'process':
            ops.append(['process', rng.choice([0, 1, 0.5, 2])])
        elif name == 'clear':
            ops.append(['clear'])
        elif name == 'toggle':
            enabled = not enabled
            ops.append(['enable', enabled])
        elif name == 'enable_same':
            ops.append(['enable', enabled])
        elif name == 'probe':
            ops.append(['probe'])
        elif name == 'newclass':
            ops.append(['newclass', rng.randrange(ncls)])
            ncls += 1
        elif name == 'bounce':
            ops.append(['bounce', gen_ref(rng, case), rng.randrange(8)])
        else:
            raise ValueError(name)
    return ops


# --------------------------------------------------------------------------
# reference model (written from the property statements)
# --------------------------------------------------------------------------

class WorldModel:
    def __init__(self):
        self.rows = {}          # id -> {exact type: component}
        self.pending = set()    # ids awaiting deferred deletion
        self.vanished = set()   # ids whose row vanished while pending
        self.fuzzy = set()      # don't-care (b): re-populated vanished ids
        self.where = {}         # uid -> entity id or None
        self.trans = []         # transitions of the current operation

    # -- primitive transitions
    def attach(self, e, c):
        row = self.rows.setdefault(e, {})
        t = type(c)
        if t in row:            # replacement: the row never becomes empty
            old = row[t]
            self.where[old.uid] = None
            self.trans.append(('remove', old.uid, e))
        row[t] = c
        self.where[c.uid] = e
        self.trans.append(('add', c.uid, e))
        if e in self.vanished:
            self.fuzzy.add(e)

    def detach(self, e, t):
        c = self.rows[e].pop(t)
        self.where[c.uid] = None
        self.trans.append(('remove', c.uid, e))
        if not self.rows[e]:
            del self.rows[e]
            if e in self.pending:
                self.pending.discard(e)
                self.vanished.add(e)
            self.fuzzy.discard(e)
        return c

    def detach_all(self, e):
        for t in list(self.rows.get(e, {})):
            self.detach(e, t)

    # -- queries
    def matching(self, e, t):
        return [c for ct, c in self.rows.get(e, {}).items()
                if issubclass(ct, t)]

    def alive(self):
        return [e for e in self.rows if e not in self.pending]

    # -- operations
    def delete(self, e, immediate):
        if immediate:
            self.detach_all(e)
        elif e in self.rows:
            self.pending.add(e)
            self.fuzzy.discard(e)
            self.vanished.discard(e)

    def process(self):
        for e in list(self.pending):
            self.detach_all(e)
        self.pending.clear()
        self.vanished.clear()

    def clear(self):
        for e in list(self.rows):
            self.detach_all(e)
        self.pending.clear()
        self.vanished.clear()
        self.fuzzy.clear()


# --------------------------------------------------------------------------
# driver: runs a case against a real World and the model, one op at a time
# --------------------------------------------------------------------------

class Driver:
    """Executes the operations; subclasses judge in ``after_op``."""
    skip_create_over = False    # input class 'create over an existing type'

    def __init__(self, case, res):
        self.desper = import_desper()
        self.case = case
        self.res = res
        self.log = []               # callback log of the current operation
        self.seq = 0
        self.model = WorldModel()
        self.comps = {}             # uid -> component (strong references)
        self.autos = []             # automatic ids returned so far
        self.mentioned = []         # every id ever used (ordered, deduped)
        self.enabled = True         # model of dispatch_enabled
        self.build_classes()
        self.ids = [tup(i) for i in case['ids']]
        self.world = self.make_world()
        self.world_uid = id(self.world)
        self.procs = []
        self.next_uid = 0

    # -- construction helpers
    def make_world(self):
        return self.desper.World()

    def build_classes(self):
        desper = self.desper
        driver = self
        self.root = type('Root', (), {})
        self.classes = []
        self.events = []            # expected event mapping per class
        for i, spec in enumerate(self.case['classes']):
            base = self.root if spec['base'] is None \
                else self.classes[spec['base']]
            inherited = {} if spec['base'] is None \
                else dict(self.events[spec['base']])
            ns = {}
            own = {}
            for k in spec['shape']:
                name = RENAMED[k] if spec['rename'] else KIND_EVENT[k]
                own[KIND_EVENT[k]] = name
                ns[name] = _callback(driver, KIND_NAME[k])
            if spec.get('falsy') == 'bool':
                ns['__bool__'] = lambda self: False
            elif spec.get('falsy') == 'len':
                ns['__len__'] = lambda self: 0
            if spec.get('eq'):
                ns['__eq__'] = _same_class
                ns['__hash__'] = _const_hash if spec['eq'] == 'equal' else None
            cls = type(f'K{i}', (base,), ns)
            if own:
                if spec['rename']:
                    cls = desper.event_handler(**own)(cls)
                else:
                    cls = desper.event_handler(*own)(cls)
            inherited.update(own)
            self.classes.append(cls)
            self.events.append(inherited)

    def events_of(self, comp):
        return self.events[comp.cls_index]

    def new_comp(self, cls_index):
        cls_index %= len(self.classes)
        c = self.classes[cls_index]()
        c.uid = self.next_uid
        c.cls_index = cls_index
        self.next_uid += 1
        self.comps[c.uid] = c
        return c

    def resolve(self, ref):
        kind, k = ref
        if kind == 'x':
            e = self.ids[k % len(self.ids)]
        elif kind == 'a':
            if not self.autos:
                return None, False
            e = self.autos[k % len(self.autos)]
        else:
            e = ('ghost', k)
        self.mention(e)
        return e, True

    def mention(self, e):
        for known in self.mentioned:
            if known == e and type(known) is type(e):
                return
        self.mentioned.append(e)

    # -- the real operations; each returns (ret, exc)
    def call(self, fn, *args, **kwargs):
        try:
            return fn(*args, **kwargs), None
        except HarnessError as ex:
            return None, ex
        except Exception as ex:      # observation, judged by the oracle
            return None, ex

    def execute(self, at, op):
        """Run one operation on the world and on the model.

        Returns a record dict, or None when the operation is not applicable
        in the current model state (skipped).
        """
        w, m = self.world, self.model
        name = op[0]
        rec = {'at': at, 'op': op, 'enabled_before': self.enabled,
               'note': {}}
        m.trans = []
        del self.log[:]
        if name == 'newclass':
            # a component class defined after the world has been queried
            base = op[1] % len(self.classes)
            self.classes.append(type(f'Late{len(self.classes)}',
                                     (self.classes[base],), {}))
            self.events.append(dict(self.events[base]))
            rec['ret'], rec['exc'] = None, None
        elif name == 'create':
            comps = [self.new_comp(k) for k in op[1]]
            rec['uids'] = [c.uid for c in comps]
            if op[2] is None:
                rec['ret'], rec['exc'] = self.call(w.create_entity, *comps)
                e = rec['ret']
                if rec['exc'] is None:
                    rec['note']['auto_taken'] = e in m.rows
                    self.autos.append(e)
                    self.mention(e)
            else:
                e, _ = self.resolve(op[2])
                rec['note']['over_existing'] = any(
                    type(c) in m.rows.get(e, {}) for c in comps)
                if rec['note']['over_existing'] and self.skip_create_over:
                    return None
                rec['ret'], rec['exc'] = self.call(
                    w.create_entity, *comps, entity_id=e)
            rec['entity'] = e
            if rec['exc'] is None:
                for c in comps:
                    m.attach(e, c)
        elif name == 'add':
            e, ok = self.resolve(op[1])
            if not ok:
                return None
            c = self.new_comp(op[2])
            rec['entity'], rec['uids'] = e, [c.uid]
            rec['note']['replaces'] = type(c) in m.rows.get(e, {})
            rec['note']['on_pending'] = e in m.pending
            rec['ret'], rec['exc'] = self.call(w.add_component, e, c)
            m.attach(e, c)
        elif name == 'readd':
            e, ok = self.resolve(op[1])
            detached = [u for u, where in m.where.items() if where is None]
            if not ok or not detached:
                return None
            c = self.comps[detached[op[2] % len(detached)]]
            rec['entity'], rec['uids'] = e, [c.uid]
            rec['note']['replaces'] = type(c) in m.rows.get(e, {})
            rec['ret'], rec['exc'] = self.call(w.add_component, e, c)
            m.attach(e, c)
        elif name == 'bounce':
            # detach one component of the entity and attach the very same
            # instance to the very same entity again
            e, ok = self.resolve(op[1])
            row = m.rows.get(e, {}) if ok else {}
            if not row:
                return None
            t = list(row)[op[2] % len(row)]
            c = row[t]
            rec['entity'], rec['uids'] = e, [c.uid]
            rec['ret'], rec['exc'] = self.call(w.remove_component, e, t)
            if rec['exc'] is None:
                m.detach(e, t)
                rec['ret'], rec['exc'] = self.call(w.add_component, e, c)
                m.attach(e, c)
        elif name == 'remove':
            e, ok = self.resolve(op[1])
            if not ok:
                return None
            t = self.classes[op[2] % len(self.classes)]
            rec['entity'] = e
            candidates = m.matching(e, t)
            exact = m.rows.get(e, {}).get(t)
            rec['note']['on_pending'] = e in m.pending
            rec['ret'], rec['exc'] = self.call(w.remove_component, e, t)
            rec['candidates'] = [c.uid for c in candidates]
            rec['exact'] = None if exact is None else exact.uid
            got = rec['ret']
            # the model follows the observed choice when it is a legal one
            if exact is not None:
                m.detach(e, t)
            elif candidates:
                chosen = got if any(got is c for c in candidates) \
                    else candidates[0]
                m.detach(e, type(chosen))
        elif name == 'delete':
            e, ok = self.resolve(op[1])
            if not ok or e not in m.rows:
                return None             # precondition of delete_entity
            rec['entity'] = e
            rec['note']['was_pending'] = e in m.pending
            rec['ret'], rec['exc'] = self.call(w.delete_entity, e,
                                               immediate=op[2])
            m.delete(e, op[2])
        elif name == 'process':
            rec['fuzzy_before'] = set(m.fuzzy)
            rec['pending_before'] = set(m.pending)
            self.before_process(rec)
            rec['ret'], rec['exc'] = self.call(w.process, op[1])
            self.model_process(rec)
        elif name == 'clear':
            rec['ret'], rec['exc'] = self.call(w.clear)
            rec['attached_before'] = [u for u, e in m.where.items()
                                      if e is not None]
            m.clear()
            self.enabled = True
        elif name == 'enable':
            rec['ret'], rec['exc'] = self.call(
                setattr, w, 'dispatch_enabled', op[1])
            self.enabled = op[1]
        elif name == 'probe':
            rec['ret'], rec['exc'] = self.call(w.dispatch, 'probe', at)
        else:
            raise ValueError(f'unknown op {op}')
        rec['trans'] = list(m.trans)
        rec['slice'] = list(self.log)
        rec['enabled_after'] = self.enabled
        return rec

    def before_process(self, rec):
        pass

    def model_process(self, rec):
        self.model.process()

    def resync_fuzzy(self, rec):
        """Don't-care (b): after process(), follow the world for ids whose
        row vanished while pending and that were populated again."""
        m = self.model
        extra = []
        if rec.get('ghost_failed') or rec.get('remove_fault_fired'):
            return                      # the frame did not complete
        for e in rec.get('fuzzy_before', ()):
            if e not in m.rows:
                continue
            try:
                left = self.world.get_components(e)
            except Exception:
                left = None
            if left is not None and len(left) == 0:
                before = len(m.trans)
                m.detach_all(e)
                extra += m.trans[before:]
                self.res.stats['dontcare_fuzzy_deleted'] += 1
            else:
                self.res.stats['dontcare_fuzzy_kept'] += 1
        m.fuzzy.clear()
        rec['trans'] = rec['trans'] + extra

    def run(self):
        at = -1
        for at, op in enumerate(self.case['ops']):
            rec = self.execute(at, op)
            if rec is None:
                self.res.stats['ops_skipped'] += 1
                continue
            if op[0] == 'process':
                self.resync_fuzzy(rec)
            self.res.stats['ops'] += 1
            self.res.stats['callbacks'] += len(rec['slice'])
            self.after_op(at, rec)
            if self.res.divs:
                break
        self.finish(at)

    def after_op(self, at, rec):
        pass

    def finish(self, at):
        pass


def _callback(driver, kind):
    def cb(self, *args):
        driver.seq += 1
        w = driver.world
        entry = {'seq': driver.seq, 'uid': self.uid, 'kind': kind,
                 'args_ok': None, 'enabled': w.dispatch_enabled}
        if kind in ('add', 'remove'):
            entry['entity'] = args[0] if args else None
            entry['args_ok'] = (len(args) == 2 and args[1] is w)
            if kind == 'add':
                # the component is attached by now: is it a listener yet?
                try:
                    entry['registered'] = w.is_handler(self)
                except Exception as ex:
                    entry['registered'] = repr(ex)
        else:
            entry['token'] = args[0] if args else None
        driver.log.append(entry)
        hook = getattr(driver, 'in_callback', None)
        if hook is not None:
            hook(self, kind, args)
    cb.__name__ = f'cb_{kind}'
    return cb


def same_id(a, b):
    return a == b


def fmt_trans(trans):
    return [list(map(str, t)) for t in trans]
