"""Shared building blocks: results, divergences, logs, step budgets."""
import collections
import hashlib
import json
import sys


class Res:
    """What the monitor of one case observed and what the oracle decided."""

    def __init__(self):
        self.divs = []                      # list of dict (first one decides)
        self.stats = collections.Counter()  # measured counters
        self.tags = collections.defaultdict(set)   # distinct things seen
        self.nontrivial = False
        self.sample = None                  # printable observed log (short)

    def div(self, at, kind, what, expected=None, observed=None, **extra):
        """Record a divergence between oracle and observation.

        ``kind`` is a stable short category (used by the minimiser and by
        the known-finding classifiers); ``at`` the operation index.
        """
        d = {'at': at, 'kind': kind, 'what': what,
             'expected': _j(expected), 'observed': _j(observed)}
        d.update({k: _j(v) for k, v in extra.items()})
        self.divs.append(d)
        return d

    @property
    def ok(self):
        return not self.divs


def _j(v, depth=0):
    """Best-effort conversion into something json can dump."""
    if v is None or isinstance(v, (bool, int, float, str)):
        return v
    if depth > 6:
        return repr(v)
    if isinstance(v, dict):
        return {str(k): _j(x, depth + 1) for k, x in v.items()}
    if isinstance(v, (list, tuple, set, frozenset)):
        items = [_j(x, depth + 1) for x in v]
        if isinstance(v, (set, frozenset)):
            items.sort(key=repr)
        return items
    return repr(v)


def fingerprint(case):
    return hashlib.sha1(
        json.dumps(case, sort_keys=True, default=repr).encode()).hexdigest()


def tup(x):
    """JSON gives lists back for tuples: restore hashability."""
    if isinstance(x, list):
        return tuple(tup(i) for i in x)
    return x


class StepBudgetExceeded(BaseException):
    """Raised by the logical watchdog (never caught by desper code)."""


class StepBudget:
    """Logical-step watchdog built on sys.monitoring (PY_START events).

    Counts entries into the given code objects while armed and raises
    StepBudgetExceeded from inside the monitored code once the budget is
    used up.  Wall clocks play no part in the verdict.
    """
    TOOL = 3

    def __init__(self, code_objects):
        self.codes = list(code_objects)
        self.armed = False
        self.count = 0
        self.limit = 0
        self.installed = False

    def install(self):
        mon = sys.monitoring
        if mon.get_tool(self.TOOL) is None:
            mon.use_tool_id(self.TOOL, 'vf-step-budget')
        mon.register_callback(self.TOOL, mon.events.PY_START, self._on_start)
        for code in self.codes:
            mon.set_local_events(self.TOOL, code, mon.events.PY_START)
        self.installed = True

    def uninstall(self):
        mon = sys.monitoring
        if not self.installed:
            return
        for code in self.codes:
            mon.set_local_events(self.TOOL, code, 0)
        mon.register_callback(self.TOOL, mon.events.PY_START, None)
        mon.free_tool_id(self.TOOL)
        self.installed = False

    def _on_start(self, code, offset):
        if not self.armed:
            return
        self.count += 1
        if self.count > self.limit:
            self.armed = False
            raise StepBudgetExceeded(
                f'{self.count} entries into monitored code, budget '
                f'{self.limit}')

    def arm(self, limit):
        self.count = 0
        self.limit = limit
        self.armed = True

    def disarm(self):
        self.armed = False
        return self.count


class HarnessError(Exception):
    """Exception type injected by workloads as a fault (never by desper)."""


def multiset(items):
    return collections.Counter(items)
