"""A small "game session" that uses the features of desper together.

One SimpleLoop with a virtual clock runs 2-3 worlds held by WorldHandles.
Each world has the default processors (OnUpdateProcessor,
CoroutineProcessor), a Director processor that executes the scripted actions
of the frame, logging processors, entities made of plain components, handler
components, a Controller with a ComponentReference, and coroutines. The
script spawns and deletes entities (deferred and immediate), adds / removes /
replaces components and processors, toggles dispatching, starts and kills
coroutines, switches world, quits and restarts the loop; lifecycle callbacks
and coroutine bodies may themselves spawn, delete, switch, quit or raise.

Nothing here predicts a result. The monitors are *self-consistency*
invariants read at quiescent points (the loop's time function is called once
per iteration, between two frames, and once more when the session ends), one
family per property:

  C01  every query tells the same story (get(T) vs rows, has/get_component,
       entities vs entity_exists);
  C02  lifecycle callbacks alternate add/remove per component, agree with
       attachment (when nothing is postponed), listeners == attached;
  C05  an entity whose deferred deletion was requested does not exist, and
       is gone after the next completed frame of its world;
  C07  processors sorted by priority, one per type, each knows its world,
       none called twice in a frame nor after its removal;
  C09  a killed or finished coroutine never steps again, none steps twice in
       one frame;
  C14  dt is 0 on the first iteration of a start and the exact clock
       difference afterwards; current world and handle go together.

A check runs the sessions with the family of its own property switched on.
"""
import collections

from vf import import_desper
from vf.core import Res, HarnessError

ACTIONS = ['spawn', 'spawn', 'spawn_id', 'delete', 'delete', 'delete_imm',
           'add', 'remove', 'ping', 'toggle', 'addproc', 'rmproc',
           'coro_start', 'coro_start', 'coro_kill', 'arm', 'arm', 'switch',
           'quit', 'clear']
ARMED = ['spawn', 'delete_other', 'delete_other_imm', 'remove_sibling',
         'switch', 'raise', 'quit', 'readd']
CORO_ACTS = [None, None, None, 'spawn', 'delete', 'switch', 'raise', 'kill',
             'quit']


def gen(rng, tier):
    nworlds = rng.randint(2, 3)
    nframes = rng.randint(6, 30 if tier == 'thorough' else 18)
    frames = []
    for _ in range(nframes):
        acts = []
        for _ in range(rng.randint(0, 4)):
            kind = rng.choice(ACTIONS)
            a = [kind, rng.randrange(1000)]
            if kind in ('spawn', 'spawn_id'):
                a.append([rng.randrange(5) for _ in range(rng.randint(1, 3))])
            elif kind in ('add', 'remove'):
                a.append(rng.randrange(5))
            elif kind == 'toggle':
                a.append(rng.randint(1, 3))
            elif kind == 'addproc':
                a += [rng.randrange(3), rng.choice([None, -5, 0, 5, 5, 7])]
            elif kind == 'rmproc':
                a.append(rng.randrange(3))
            elif kind == 'coro_start':
                a.append([[rng.choice([None, None, 0, 1, 2, 0.5]),
                           rng.choice(CORO_ACTS)]
                          for _ in range(rng.randint(1, 5))])
            elif kind == 'arm':
                a.append(rng.choice(ARMED))
            elif kind == 'switch':
                a += [rng.randrange(nworlds), rng.random() < 0.2,
                      rng.random() < 0.2]
            acts.append(a)
        frames.append(acts)
    return {'scenario': 'session', 'worlds': nworlds, 'frames': frames,
            'initial': [[rng.randrange(5) for _ in range(rng.randint(1, 3))]
                        for _ in range(rng.randint(1, 4))]}


def shrink(case):
    frames = case['frames']
    for n in range(len(frames) - 1, 0, -1):
        yield dict(case, frames=frames[:n])
    for i in range(len(frames)):
        for j in range(len(frames[i])):
            new = [list(f) for f in frames]
            new[i] = frames[i][:j] + frames[i][j + 1:]
            yield dict(case, frames=new)
    if len(case['initial']) > 1:
        yield dict(case, initial=case['initial'][:-1])


def run(case, family):
    desper = import_desper()
    res = Res()
    S = _Session(desper, case, res, family)
    S.play()
    res.nontrivial = S.frames_run >= 3 and bool(S.flags)
    for f in S.flags:
        res.tags['session_events'].add(f)
    res.stats['session_frames'] += S.frames_run
    res.stats['session_invariant_sweeps'] += S.sweeps
    res.stats['session_invariant_reads_inside_callbacks'] += S.inside_reads
    res.sample = {'frames_run': S.frames_run, 'flags': sorted(S.flags),
                  'restarts': S.restarts}
    return res


class _Session:
    def __init__(self, desper, case, res, family):
        self.d = desper
        self.case = case
        self.res = res
        self.family = family
        self.flags = set()
        self.frames_run = 0
        self.sweeps = 0
        self.restarts = 0
        self.clock = 0
        self.reads = []             # clock readings of the current start
        self.frame_ptr = 0
        self.uid = 0
        self.instances = {}         # world uid -> world
        self.comps = {}             # comp uid -> (comp, world uid)
        self.life = collections.defaultdict(list)   # comp uid -> callbacks
        self.pending = {}           # world uid -> {entity: frame requested}
        self.proc_calls = []        # (frame, world uid, proc uid)
        self.proc_removed = {}      # proc uid -> frame of removal
        self.coros = []             # dicts
        self.armed = None
        self.stranded = set()       # worlds whose release was interrupted
        self.release_cut = set()    # ... for certain (seen by the harness)
        self.inside_reads = 0
        self.releasing = None
        self.in_toggle = False
        self.fault = None
        self.done = False
        self.frame_no = 0           # loop iterations so far
        self.completed = collections.Counter()  # world uid -> frames done
        self._build_classes()

    # ------------------------------------------------------------ classes
    def _build_classes(self):
        d, S = self.d, self

        class Tag:
            pass

        def on_add(self, entity, world):
            S.life[self.uid].append('add')
            self.owner = (entity, world)
            S.inside_callback(world, 'inside an on_add')

        def on_remove(self, entity, world):
            S.life[self.uid].append('remove')
            self.owner = None
            S.inside_callback(world, 'inside an on_remove')
            S.armed_act(self, entity, world)

        def ping(self, token):
            S.pings.append(self.uid)

        Health = d.event_handler('on_add', 'on_remove', 'ping')(
            type('Health', (), {'on_add': on_add, 'on_remove': on_remove,
                                'ping': ping}))
        Armor = type('Armor', (Health,), {})

        class Ctl(d.Controller):
            health = d.ComponentReference(Health)

            def on_add(self, entity, world):
                super().on_add(entity, world)
                S.life[self.uid].append('add')

            def on_remove(self, entity, world):
                S.life[self.uid].append('remove')

            def on_update(self, dt):
                S.updates.append(self.uid)
                if self.world is not None and self.entity is not None \
                        and self.world.get_components(self.entity):
                    self.health      # a read through the reference
        Ctl = d.event_handler('on_remove', 'on_update')(Ctl)

        class Plain2:
            pass
        self.classes = [Tag, Health, Armor, Ctl, Plain2]
        self.handler_classes = (Health, Armor, Ctl)

        def make_proc(name, prio):
            def process(self_, dt=1):
                S.proc_calls.append((S.frame_no, self_.world.uid, self_.uid))
            return type(name, (d.Processor,), {'process': process,
                                               'priority': prio})
        self.proc_classes = [make_proc('LogA', -5), make_proc('LogB', 5),
                             make_proc('LogC', 5)]

        class Director(d.Processor):
            priority = 0

            def process(self_, dt=1):
                S.direct(self_.world, dt)
        self.Director = Director
        self.pings = []
        self.updates = []

    def new_comp(self, k, world):
        c = self.classes[k % len(self.classes)]()
        self.uid += 1
        c.uid = self.uid
        self.comps[c.uid] = (c, world.uid)
        return c

    def new_proc(self, k):
        p = self.proc_classes[k % len(self.proc_classes)]()
        self.uid += 1
        p.uid = self.uid
        return p

    # -------------------------------------------------------------- worlds
    def _build(self, handle, world):
        self.uid += 1
        world.uid = self.uid
        world.handle_index = handle.index
        self.instances[world.uid] = world
        self.pending[world.uid] = {}
        director = self.Director()
        self.uid += 1
        director.uid = self.uid
        world.add_processor(director)
        world.add_processor(self.new_proc(0))
        for ks in self.case['initial']:
            world.create_entity(*[self.new_comp(k, world)
                                  for k in dict.fromkeys(ks)])

    def play(self):
        d, res = self.d, self.res
        S = self

        class LH(d.WorldHandle):
            def __init__(self_, index):
                super().__init__()
                self_.index = index
                self_.transform_functions.append(
                    d.default_processors_transformer)
                self_.transform_functions.append(S._build)
        self.handles = [LH(i) for i in range(self.case['worlds'])]

        def time_function():
            self.clock += 1
            if self.clock > 400:
                raise HarnessError('session did not end')
            self.reads.append(self.clock)
            self.sweep('between frames')
            self.frame_no += 1          # one number per loop iteration
            return self.clock
        self.loop = d.SimpleLoop(time_function)
        saved = d.default_loop
        d.default_loop = self.loop
        try:
            self.loop.switch(self.handles[0])
            while not self.done and self.restarts < 12 and not res.divs:
                self.reads = []
                self.first_dt = True
                self.fault = None
                try:
                    self.loop.start()
                    self.flags.add('quit')
                    if self.loop.running is not False:
                        self.fail('C14', 'running-after-quit',
                                  'loop.running after start() returned',
                                  False, self.loop.running)
                except HarnessError as ex:
                    if ex is not self.fault:
                        raise
                    self.flags.add('scripted-exception-reached-caller')
                except Exception as ex:
                    self.fail('*', 'session-raised', 'the loop let an '
                              f'exception escape: {type(ex).__name__}: {ex}',
                              'only Quit (handled) or the scripted fault',
                              repr(ex))
                    break
                self.restarts += 1
                if not res.divs:
                    self.sweep('after start() returned')
        finally:
            d.default_loop = saved

    # ------------------------------------------------------------ director
    def direct(self, world, dt):
        res = self.res
        self.frames_run += 1
        self.current_frame_world = world.uid
        # C14: exact dt
        if self.family in ('C14', '*'):
            want = 0 if len(self.reads) <= 1 else \
                self.reads[-1] - self.reads[-2]
            if dt != want:
                self.fail('C14', 'wrong-dt', 'dt passed to process',
                          want, dt, readings=self.reads[-3:])
            if self.loop.current_world is not world:
                self.fail('C14', 'wrong-world-processed', 'the world being '
                          'processed is not loop.current_world', world.uid,
                          getattr(self.loop.current_world, 'uid', None))
        if self.frame_ptr >= len(self.case['frames']):
            self.done = True
            raise self.d.Quit()
        acts = self.case['frames'][self.frame_ptr]
        self.frame_ptr += 1
        i = 0
        try:
            while i < len(acts):
                a = acts[i]
                i += 1
                if a[0] == 'toggle' and not self.in_toggle:
                    n = a[2]
                    world.dispatch_enabled = False
                    self.in_toggle = True
                    self.flags.add('toggle')
                    try:
                        for b in acts[i:i + n]:
                            if b[0] not in ('toggle', 'switch', 'quit',
                                            'arm', 'clear'):
                                self.act(world, b)
                    finally:
                        i += n
                        self.in_toggle = False
                        self.releasing = world.uid
                        try:
                            world.dispatch_enabled = True
                        finally:
                            self.releasing = None
                    continue
                self.act(world, a)
        finally:
            pass
        self.completed[world.uid] += 1
        self.mark_completed(world)

    def mark_completed(self, world):
        """Called when the Director's part of the frame ended normally; the
        deferred deletions requested before THIS frame started are due."""
        pend = self.pending[world.uid]
        for e, (frame, _) in list(pend.items()):
            if frame < self.frame_no:
                pend[e] = (frame, True)     # flushed by this frame's start

    def entity_ref(self, world, n):
        ents = world.entities
        return ents[n % len(ents)] if ents else None

    def act(self, world, a):
        d = self.d
        kind, n = a[0], a[1]
        self.flags.add(kind)
        if kind == 'spawn':
            world.create_entity(*[self.new_comp(k, world)
                                  for k in dict.fromkeys(a[2])])
        elif kind == 'spawn_id':
            eid = ['a', 'b', 101, 0][n % 4]
            if not world.get_components(eid) and \
                    eid not in self.pending[world.uid]:
                world.create_entity(*[self.new_comp(k, world)
                                      for k in dict.fromkeys(a[2])],
                                    entity_id=eid)
        elif kind in ('delete', 'delete_imm'):
            e = self.entity_ref(world, n)
            if e is None:
                return
            if kind == 'delete':
                world.delete_entity(e)
                self.pending[world.uid][e] = (self.frame_no, False)
            else:
                world.delete_entity(e, immediate=True)
        elif kind == 'add':
            e = self.entity_ref(world, n)
            if e is not None:
                world.add_component(e, self.new_comp(a[2], world))
        elif kind == 'remove':
            e = self.entity_ref(world, n)
            if e is not None:
                world.remove_component(e, self.classes[a[2] % 5])
        elif kind == 'ping':
            del self.pings[:]
            world.dispatch('ping', n)
            if world.dispatch_enabled and self.family in ('C02', '*'):
                attached = self.attached_uids(world)
                want = sorted(u for u in attached
                              if isinstance(self.comps[u][0],
                                            self.handler_classes[:2]))
                if sorted(self.pings) != want:
                    self.fail('C02', 'event-reach', 'a world event did not '
                              'reach exactly the attached listeners once '
                              'each', want, sorted(self.pings))
        elif kind == 'addproc':
            p = self.new_proc(a[2])
            old = world.get_processor(type(p))
            if old is not None and type(old) is type(p):
                self.proc_removed[old.uid] = (self.frame_no,
                                              len(self.proc_calls))
            if a[3] is None:
                world.add_processor(p)
            else:
                world.add_processor(p, a[3])
        elif kind == 'rmproc':
            got = world.remove_processor(self.proc_classes[a[2] % 3])
            if got is not None:
                self.proc_removed[got.uid] = (self.frame_no,
                                              len(self.proc_calls))
        elif kind == 'coro_start':
            cp = world.get_processor(d.CoroutineProcessor)
            if cp is None:
                return
            rec = {'script': a[2], 'steps': [], 'killed_at': None,
                   'world': world.uid, 'over': False}
            rec['gen'] = self.coroutine(world, rec)
            rec['proc'] = cp
            self.coros.append(rec)
            cp.start(rec['gen'])
        elif kind == 'coro_kill':
            live = [c for c in self.coros if c['world'] == world.uid
                    and not c['over'] and c['killed_at'] is None]
            if live:
                rec = live[n % len(live)]
                try:
                    rec['proc'].kill(rec['gen'])
                    rec['killed_at'] = len(rec['steps'])
                    self.flags.add('coroutine-killed')
                except ValueError:
                    pass
        elif kind == 'arm':
            self.armed = a[2]
        elif kind == 'switch':
            self.flags.add('switch')
            d.switch(self.handles[a[2]], clear_current=a[3], clear_next=a[4])
        elif kind == 'quit':
            d.quit_loop()
        elif kind == 'clear':
            if self.frame_no % 5 == 0:
                procs = list(world.processors)
                # (an armed on_remove may interrupt the clear with a switch,
                # a quit or the scripted fault: nothing is assumed then)
                world.clear()
                for rec in self.coros:
                    if rec['world'] == world.uid:
                        rec['over'] = True
                for p in procs:
                    self.proc_removed.setdefault(
                        getattr(p, 'uid', id(p)),
                        (self.frame_no, len(self.proc_calls)))
                self.pending[world.uid].clear()
                self.flags.add('world-cleared')
                # the session needs a director to go on
                director = self.Director()
                self.uid += 1
                director.uid = self.uid
                world.add_processor(director)
                world.add_processor(d.CoroutineProcessor())

    def armed_act(self, comp, entity, world):
        """The armed action, performed from inside an on_remove."""
        kind = self.armed
        if kind is None or self.in_toggle or not world.dispatch_enabled:
            return
        self.armed = None
        self.flags.add('on_remove:' + kind)
        d = self.d
        if kind in ('switch', 'raise', 'quit'):
            # the exception may cut a release of postponed callbacks short
            # (an enabling assignment in progress): what is still queued
            # stays queued, so "last callback == attachment" is not judged
            # for this world any more
            self.stranded.add(world.uid)
            if self.releasing == world.uid:
                # ... and this one certainly does: the world stays enabled
                # with callbacks still queued
                self.release_cut.add(world.uid)
        if kind == 'spawn':
            world.create_entity(self.new_comp(0, world))
        elif kind in ('delete_other', 'delete_other_imm'):
            others = [e for e in world.entities if e != entity]
            if others:
                if kind == 'delete_other':
                    world.delete_entity(others[0])
                    self.pending[world.uid][others[0]] = (self.frame_no,
                                                          False)
                else:
                    world.delete_entity(others[0], immediate=True)
        elif kind == 'remove_sibling':
            for k in (0, 4):
                if world.has_component(entity, self.classes[k]):
                    world.remove_component(entity, self.classes[k])
                    break
        elif kind == 'readd':
            others = [e for e in world.entities if e != entity]
            if others:
                world.add_component(others[0], comp)
        elif kind == 'switch':
            d.switch(self.handles[(world.handle_index + 1)
                                  % len(self.handles)]
                     if hasattr(world, 'handle_index')
                     else self.handles[0])
        elif kind == 'raise':
            self.fault = HarnessError('scripted fault in on_remove')
            raise self.fault
        elif kind == 'quit':
            d.quit_loop()

    def coroutine(self, world, rec):
        d = self.d
        for y, act in rec['script']:
            rec['steps'].append(self.frame_no)
            if act is not None:
                self.flags.add('coroutine:' + act)
            if act == 'spawn':
                world.create_entity(self.new_comp(0, world))
            elif act == 'delete':
                e = self.entity_ref(world, len(rec['steps']))
                if e is not None:
                    world.delete_entity(e)
                    self.pending[world.uid][e] = (self.frame_no, False)
            elif act == 'switch':
                rec['over'] = True
                d.switch(self.handles[0])
            elif act == 'quit':
                rec['over'] = True
                d.quit_loop()
            elif act == 'raise':
                rec['over'] = True
                self.fault = HarnessError('scripted fault in a coroutine')
                raise self.fault
            elif act == 'kill':
                others = [c for c in self.coros if c is not rec
                          and c['world'] == world.uid and not c['over']
                          and c['killed_at'] is None]
                if others:
                    try:
                        others[0]['proc'].kill(others[0]['gen'])
                        others[0]['killed_at'] = len(others[0]['steps'])
                    except ValueError:
                        pass
            yield y
        rec['steps'].append(self.frame_no)
        rec['over'] = True

    # ---------------------------------------------------------- invariants
    def fail(self, prop, kind, what, expected=None, observed=None, **kw):
        if self.family not in (prop, '*') and prop != '*':
            return
        if not self.res.divs:
            self.res.div(self.frame_no, f'session-{kind}', what,
                         expected=expected, observed=observed, **kw)

    def attached_uids(self, world):
        out = {}
        # (entities awaiting deletion keep their components until the flush)
        for e in list(world.entities) + list(self.pending[world.uid]):
            for c in world.get_components(e):
                if hasattr(c, 'uid'):
                    out[c.uid] = e
        return out

    def sweep(self, when):
        if self.res.divs:
            return
        self.sweeps += 1
        fam = self.family
        try:
            for wuid, w in list(self.instances.items()):
                if fam in ('C01', '*'):
                    self.inv_tables(w, when)
                if fam in ('C02', '*'):
                    self.inv_lifecycle(w, when)
                if fam in ('C05', '*'):
                    self.inv_deferred(w, when)
                if fam in ('C07', '*'):
                    self.inv_processors(w, when)
            if fam in ('C09', '*'):
                self.inv_coroutines(when)
            if fam in ('C14', '*'):
                h = self.loop.current_world_handle
                if h is not None and h.cached \
                        and h() is not self.loop.current_world:
                    self.fail('C14', 'world-handle-unpaired', 'the current '
                              'handle does not hold the current world '
                              f'({when})', 'paired', 'unpaired')
        except Exception as ex:
            self.fail('*', 'query-raised', f'a read-only query raised at a '
                      f'quiescent point ({when}): {type(ex).__name__}: {ex}',
                      'no exception', repr(ex))

    def inside_callback(self, world, when):
        """The queries tell one story also when a callback looks: both
        tables are updated before the library calls out."""
        if self.family not in ('C01', '*') or self.res.divs \
                or not hasattr(world, 'uid'):
            return
        self.inside_reads += 1
        try:
            self.inv_tables(world, when, inside=True)
        except Exception as ex:
            self.fail('*', 'query-raised', f'a read-only query raised '
                      f'{when}: {type(ex).__name__}: {ex}', 'no exception',
                      repr(ex))

    def inv_tables(self, w, when, inside=False):
        rows = {}
        ids = set(w.entities) | set(self.pending[w.uid])
        if inside:
            # (inside a callback the harness' own list of entities awaiting
            # deletion may be behind: whoever get(object) names is looked at)
            ids |= {e for e, _ in w.get(object)}
        for e in ids:
            comps = w.get_components(e)
            if comps:
                rows[e] = comps
        ents = set(w.entities)
        for e in ents:
            if not w.entity_exists(e) or e not in rows:
                self.fail('C01', 'entities-vs-rows', f'{e!r} is listed by '
                          f'entities but entity_exists/get_components '
                          f'disagree ({when})', True,
                          [w.entity_exists(e), e in rows])
                return
        for cls in self.classes + [object]:
            answer = w.get(cls)
            got = collections.Counter((repr(e), id(c)) for e, c in answer)
            if isinstance(answer, list):
                del answer[:]       # the caller's own list
            want = collections.Counter(
                (repr(e), id(c)) for e, cs in rows.items() for c in cs
                if isinstance(c, cls))
            if got != want:
                self.fail('C01', 'get-vs-rows', f'get({cls.__name__}) '
                          f'disagrees with the rows of the entities ({when})',
                          sorted(want.elements())[:6],
                          sorted(got.elements())[:6])
                return
        for e, cs in rows.items():
            for c in cs:
                if not w.has_component(e, type(c)) \
                        or w.get_component(e, type(c)) is not c:
                    self.fail('C01', 'component-queries', 'has_component/'
                              f'get_component disagree with get_components '
                              f'({when})', True, False)
                    return

    def inv_lifecycle(self, w, when):
        attached = self.attached_uids(w)
        for uid, (c, wuid) in self.comps.items():
            if wuid != w.uid or not isinstance(c, self.handler_classes):
                continue
            seq = self.life[uid]
            if any(k != ('add' if i % 2 == 0 else 'remove')
                   for i, k in enumerate(seq)):
                self.fail('C02', 'callbacks-not-alternating', f'component '
                          f'{uid} ({type(c).__name__}) got on_add/on_remove '
                          f'out of turn ({when})', 'add, remove, add, ...',
                          seq, release_cut=w.uid in self.release_cut)
                return
            reg = w.is_handler(c)
            if reg != (uid in attached):
                self.fail('C02', 'registration', f'component {uid} '
                          f'({type(c).__name__}) listener: {reg}, attached: '
                          f'{uid in attached} ({when})', uid in attached, reg)
                return
            if w.dispatch_enabled and w is self.loop.current_world \
                    and w.uid not in self.stranded:
                last = seq[-1] if seq else 'remove'
                if last != ('add' if uid in attached else 'remove'):
                    self.fail('C02', 'callbacks-vs-attachment', f'component '
                              f'{uid} ({type(c).__name__}) attached: '
                              f'{uid in attached}, callbacks so far {seq} '
                              f'({when})', None, seq)
                    return

    def inv_deferred(self, w, when):
        ents = set(w.entities)
        for e, (frame, flushed) in list(self.pending[w.uid].items()):
            if e in ents or w.entity_exists(e):
                self.fail('C05', 'deleted-entity-exists', f'entity {e!r}, '
                          'whose deferred deletion was requested in frame '
                          f'{frame}, exists ({when})', False, True)
                return
            if flushed:
                if w.get_components(e):
                    self.fail('C05', 'deletion-not-applied', f'entity {e!r}: '
                              'a later frame of its world completed, yet it '
                              f'still owns components ({when})', [],
                              [type(c).__name__
                               for c in w.get_components(e)])
                    return
                del self.pending[w.uid][e]

    def inv_processors(self, w, when):
        procs = w.processors
        prios = [p.priority for p in procs]
        if prios != sorted(prios):
            self.fail('C07', 'processors-not-sorted', f'processors not in '
                      f'priority order ({when})', sorted(prios), prios)
            return
        types = [type(p) for p in procs]
        if len(set(types)) != len(types):
            self.fail('C07', 'duplicate-type', f'two processors of one type '
                      f'({when})', None, [t.__name__ for t in types])
            return
        for p in procs:
            if p.world is not w or w.get_processor(type(p)) is not p:
                self.fail('C07', 'processor-views-disagree', f'{type(p)} '
                          f'listed but world/get_processor disagree ({when})',
                          None, None)
                return
        per_frame = collections.Counter((f, u) for f, _, u in
                                        self.proc_calls)
        twice = [k for k, n in per_frame.items() if n > 1]
        if twice:
            self.fail('C07', 'processor-called-twice', 'a processor was '
                      f'called twice in one frame ({when})', 1, twice[:3])
            return
        for idx, (f, wu, u) in enumerate(self.proc_calls):
            if u in self.proc_removed and idx >= self.proc_removed[u][1]:
                self.fail('C07', 'called-after-removal', f'processor {u} was '
                          f'called after its removal ({when})', 'never',
                          [f, self.proc_removed[u]])
                return

    def inv_coroutines(self, when):
        for n, rec in enumerate(self.coros):
            steps = rec['steps']
            if len(set(steps)) != len(steps):
                self.fail('C09', 'coroutine-stepped-twice', f'coroutine {n} '
                          f'advanced twice in one frame ({when})', None,
                          steps)
                return
            if rec['killed_at'] is not None \
                    and len(steps) > rec['killed_at'] + 1:
                # (+1: a coroutine that kills ... is being stepped itself)
                self.fail('C09', 'killed-coroutine-ran', f'coroutine {n} ran '
                          f'after it was killed ({when})',
                          rec['killed_at'], len(steps))
                return
