"""Nested namespace for dotted-name resolution (vf_fixtures.sub.Klass.Inner)."""
from . import _make_component, _decorate, Marker

OBJ_C = Marker('C')


class Klass:
    ATTR = Marker('Klass.ATTR')


def build():
    if hasattr(Klass, 'Inner'):
        return
    Klass.Inner = _decorate(_make_component('Inner', handler=True))
    Klass.Plain = _make_component('Plain', handler=False)
