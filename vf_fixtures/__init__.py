"""Importable recorder classes for C15: JSON world files name them."""
LOG = []        # ('new', instance, args, kwargs) / lifecycle entries


class FixtureFault(Exception):
    """Raised by a constructor armed to fail once (a load that fails)."""


FAIL = {'countdown': None, 'fired': False}


def _record(self, args, kwargs):
    if FAIL['countdown'] is not None:
        if FAIL['countdown'] == 0:
            FAIL['countdown'] = None
            FAIL['fired'] = True
            raise FixtureFault('constructor failed (injected once)')
        FAIL['countdown'] -= 1
    self.args, self.kwargs = args, kwargs
    LOG.append(('new', self, args, kwargs))


def _make_component(name, handler):
    ns = {'__init__': lambda self, *a, **k: _record(self, a, k)}
    if handler:
        def on_add(self, entity, world):
            LOG.append(('on_add', self, entity, world))

        def on_world_load(self, handle, world):
            LOG.append(('on_world_load', self, handle, world))
        ns['on_add'] = on_add
        ns['on_world_load'] = on_world_load
    cls = type(name, (), ns)
    cls.__module__ = __name__
    return cls


def _decorate(cls):
    import desper
    return desper.event_handler('on_add', 'on_world_load')(cls)


def _make_processor(name, priority):
    import desper

    def process(self, dt=1):
        LOG.append(('process', self, dt))
    cls = type(name, (desper.Processor,),
               {'__init__': lambda self, *a, **k: _record(self, a, k),
                'process': process, 'priority': priority})
    cls.__module__ = __name__
    return cls


def build():
    """(Re)create the classes; needs desper importable."""
    g = globals()
    if 'RC0' in g:
        return
    for i in range(6):
        cls = _make_component(f'RC{i}', handler=i % 2 == 0)
        g[f'RC{i}'] = _decorate(cls) if i % 2 == 0 else cls
    for i, prio in enumerate([0, 0, 1, -1, 0]):
        g[f'RP{i}'] = _make_processor(f'RP{i}', prio)
    # a small hierarchy: RPD derives from RP0, RPDD from RPD
    for name, base in (('RPD', 'RP0'), ('RPDD', 'RPD')):
        cls = type(name, (g[base],), {})
        cls.__module__ = __name__
        g[name] = cls
    from . import sub
    sub.build()


class Marker:
    def __init__(self, name):
        self.name = name

    def __repr__(self):
        return f'<Marker {self.name}>'


OBJ_A = Marker('A')
OBJ_B = Marker('B')
NUMBER = 12345
TEXT = 'plain text object'
# objects that cannot be copied: a lock, (and the modules themselves)
import threading    # noqa: E402
LOCK = threading.Lock()
