#!/usr/bin/env python3
"""Self-validation of the monitors (not a registered check).

For every breaking edit of selftest/mutants.json (string replacement in one
file of desper/) and every ``fix:`` commit of /repo (reverted), a scratch
copy of the tree is made outside /repo and /verif, the edit is applied, the
pinned pytest suite is run on the copy (only edits that keep it green count
as "realistic"), then the target property's quick check - and, if that is
silent, the thorough one - is run with DESPER_ROOT pointing at the copy.
Results go to selftest/RESULTS.md.  Scratch copies are removed at once.

usage: selftest/run.py [--only SUBSTR] [--jobs N] [--no-thorough]
       selftest/run.py --sweep [--seeds N] [--tier quick|thorough]
"""
import argparse
import concurrent.futures
import json
import os
import shutil
import subprocess
import sys
import tempfile
import time

HERE = os.path.dirname(os.path.abspath(__file__))
VERIF = os.path.dirname(HERE)
REPO = os.environ.get('DESPER_ROOT', '/repo')
PY = '/venv/bin/python'


def make_copy():
    tmp = tempfile.mkdtemp(prefix='vf-selftest-')
    for name in ('desper', 'tests'):
        shutil.copytree(os.path.join(REPO, name), os.path.join(tmp, name),
                        ignore=shutil.ignore_patterns('__pycache__'))
    return tmp


def run_pytest(root):
    try:
        proc = subprocess.run(
            [PY, '-m', 'pytest', '-q', '-x', '-p', 'no:cacheprovider',
             'tests'],
            cwd=root, capture_output=True, text=True, timeout=180,
            env=dict(os.environ, PYTHONDONTWRITEBYTECODE='1'))
    except subprocess.TimeoutExpired:
        # the edit makes the pinned suite hang: it does not "pass the tests"
        return False, 'pinned suite hangs (timeout)'
    tail = proc.stdout.strip().splitlines()[-1:] or ['']
    return proc.returncode == 0, tail[0]


def run_check(pid, tier, root, seed=0, timeout=3600):
    t0 = time.time()
    try:
        proc = subprocess.run(
            [os.path.join(VERIF, 'check'), pid, '--tier', tier, '--seed',
             str(seed), '--no-evidence'], cwd=VERIF, capture_output=True,
            text=True, timeout=timeout,
            env=dict(os.environ, DESPER_ROOT=root, PYTHONHASHSEED='0',
                     PYTHONDONTWRITEBYTECODE='1',
                     VF_TREE_PREDATES_AAD6AA0='1' if os.path.exists(
                         os.path.join(root, '.predates_aad6aa0')) else '',
                     VF_REPLAY_DIR=os.path.join(root, 'vf-replays')
                     if root != REPO else ''))
        out = proc.stdout + proc.stderr
        code = proc.returncode
    except subprocess.TimeoutExpired as ex:
        out, code = f'TIMEOUT {ex}', 2
    kinds = [line.split('[')[1].split(']')[0]
             for line in out.splitlines() if line.startswith('divergence [')]
    return code, kinds, time.time() - t0, out


def apply_mutant(root, mutant):
    if 'revert' in mutant:
        diff = subprocess.run(['git', '-C', REPO, 'show', mutant['revert'],
                               '--', 'desper'], capture_output=True,
                              text=True).stdout
        proc = subprocess.run(['patch', '-R', '-p1', '--no-backup-if-mismatch',
                               '-F', '3'], cwd=root, input=diff,
                              capture_output=True, text=True)
        return proc.returncode == 0, proc.stdout[-300:]
    path = os.path.join(root, mutant['file'])
    with open(path) as fin:
        src = fin.read()
    count = src.count(mutant['find'])
    nth = mutant.get('nth')
    if count == 0 or (count != 1 and nth is None):
        return False, f"find string occurs {count} times"
    if nth is None:
        new = src.replace(mutant['find'], mutant['replace'])
    else:
        pos = -1
        for _ in range(nth + 1):
            pos = src.index(mutant['find'], pos + 1)
        new = src[:pos] + mutant['replace'] + src[pos + len(mutant['find']):]
    with open(path, 'w') as fout:
        fout.write(new)
    return True, ''


def one(mutant, thorough):
    root = make_copy()
    try:
        ok, why = apply_mutant(root, mutant)
        if not ok:
            return dict(mutant, status='not-applicable', detail=why)
        try:
            subprocess.run([PY, '-m', 'compileall', '-q', 'desper'], cwd=root,
                           check=True, capture_output=True)
        except subprocess.CalledProcessError:
            return dict(mutant, status='does-not-compile')
        green, tail = run_pytest(root)
        shutil.rmtree(os.path.join(root, 'desper', '__pycache__'),
                      ignore_errors=True)
        results = {}
        caught_by = None
        for pid in [mutant['property']] + mutant.get('also', []):
            code, kinds, secs, out = run_check(pid, 'quick', root)
            results[pid] = {'quick': [code, kinds, round(secs, 1)]}
            if code == 1 and caught_by is None:
                caught_by = f'{pid} quick {kinds[:2]} {secs:.0f}s'
            elif code == 2:
                results[pid]['quick'].append(out[-400:])
        if caught_by is None and thorough:
            pid = mutant['property']
            code, kinds, secs, out = run_check(pid, 'thorough', root)
            results[pid]['thorough'] = [code, kinds, round(secs, 1)]
            if code == 1:
                caught_by = f'{pid} thorough {kinds[:2]} {secs:.0f}s'
        return dict(mutant, status='caught' if caught_by else 'MISSED',
                    suite_green=green, suite=tail, caught_by=caught_by,
                    results=results)
    finally:
        shutil.rmtree(root, ignore_errors=True)


def fix_commits():
    log = subprocess.run(['git', '-C', REPO, 'log', '--format=%h %s'],
                         capture_output=True, text=True).stdout
    out = []
    known = json.load(open(os.path.join(VERIF, 'known_findings.json')))
    by_commit = {}
    for f in known['findings']:
        if f['status'] == 'fixed':
            by_commit.setdefault(f['commit'], f)
    for line in log.splitlines():
        sha, subject = line.split(' ', 1)
        if subject.startswith('fix:') and sha in by_commit:
            f = by_commit[sha]
            out.append({'id': f'revert-{sha}-{f["mechanism"]}',
                        'property': f['property'], 'revert': sha,
                        'desc': 'revert of ' + subject})
    return out


def sweep(seeds, tier, jobs):
    checks = [c['property_id'] for c in json.load(
        open(os.path.join(VERIF, 'MANIFEST.json')))['checks']]
    work = [(pid, seed) for seed in range(seeds) for pid in checks]
    bad = []
    with concurrent.futures.ThreadPoolExecutor(jobs) as pool:
        futs = {pool.submit(run_check, pid, tier, REPO, seed): (pid, seed)
                for pid, seed in work}
        for fut in concurrent.futures.as_completed(futs):
            pid, seed = futs[fut]
            code, kinds, secs, out = fut.result()
            line = out.strip().splitlines()[-1] if out.strip() else ''
            print(f'{pid} seed={seed} exit={code} {secs:.0f}s {line}',
                  flush=True)
            if code != 0:
                bad.append((pid, seed, code, out[-1500:]))
    for pid, seed, code, out in bad:
        print(f'\n=== FALSE ALARM / INCONCLUSIVE {pid} seed={seed} '
              f'exit={code}\n{out}')
    print(f'sweep {tier}: {len(work)} runs, {len(bad)} not silent')
    return 1 if bad else 0


def main():
    ap = argparse.ArgumentParser()
    ap.add_argument('--only', default='')
    ap.add_argument('--jobs', type=int, default=8)
    ap.add_argument('--no-thorough', action='store_true')
    ap.add_argument('--sweep', action='store_true')
    ap.add_argument('--seeds', type=int, default=10)
    ap.add_argument('--tier', default='quick')
    ap.add_argument('--out', default=os.path.join(HERE, 'RESULTS.md'))
    args = ap.parse_args()
    if args.sweep:
        return sweep(args.seeds, args.tier, args.jobs)
    with open(os.path.join(HERE, 'mutants.json')) as fin:
        mutants = json.load(fin)
    mutants += fix_commits()
    mutants = [m for m in mutants if args.only in m['id']
               or args.only == m['property']]
    rows = []
    with concurrent.futures.ThreadPoolExecutor(args.jobs) as pool:
        for row in pool.map(lambda m: one(m, not args.no_thorough), mutants):
            rows.append(row)
            print(f"{row['id']:55s} {row['status']:8s} "
                  f"suite_green={row.get('suite_green')} "
                  f"{row.get('caught_by') or row.get('detail') or ''}",
                  flush=True)
    if not args.only:
        write_results(rows, args.out)
    missed = [r for r in rows if r['status'] == 'MISSED']
    print(f'{len(rows)} edits: {sum(r["status"] == "caught" for r in rows)} '
          f'caught, {len(missed)} missed, '
          f'{sum(r["status"] not in ("caught", "MISSED") for r in rows)} n/a')
    return 0


def write_results(rows, path):
    with open(path, 'w') as fout:
        fout.write('# Self-validation: breaking edits vs. monitors\n\n'
                   'Generated by `selftest/run.py` (scratch copies of the '
                   'tree, removed afterwards). `suite` = the pinned 111 tests '
                   'still pass with the edit (only those are "realistic").\n\n'
                   '| edit | property | suite green | verdict | detected by |'
                   '\n|---|---|---|---|---|\n')
        for r in sorted(rows, key=lambda r: (r['property'], r['id'])):
            fout.write(f"| {r['id']} — {r.get('desc', '')} | {r['property']} "
                       f"| {r.get('suite_green')} | {r['status']} | "
                       f"{r.get('caught_by') or r.get('detail') or ''} |\n")


if __name__ == '__main__':
    sys.exit(main())
