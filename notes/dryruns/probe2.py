import desper, gc, weakref, traceback, signal
from desper import *

def sec(t): print('\n###', t)

sec('C03 event_handler inheritance / aliasing')
@event_handler('a', b='bm')
class Base:
    def a(s,*x,**k): pass
    def bm(s,*x,**k): pass
before = dict(Base.__events__)
@event_handler('c', a='a2')
class Sub(Base):
    def c(s): pass
    def a2(s): pass
print('base before', before, 'after', Base.__events__, 'sub', Sub.__events__, 'same obj', Base.__events__ is Sub.__events__)
# undecorated subclass + decorated grand-child
class Mid(Base): pass
@event_handler('z')
class Leaf(Mid):
    def z(s): pass
print('Mid', Mid.__events__, 'Leaf', Leaf.__events__, 'Base', Base.__events__)

sec('C03 kwargs and double registration')
@event_handler('ev')
class K:
    def __init__(s): s.log=[]
    def ev(s,*a,**k): s.log.append((a,k))
d = EventDispatcher(); k = K(); d.add_handler(k); d.add_handler(k)
d.dispatch('ev', 1, 2, x=3)
print(k.log)
d.remove_handler(k); d.dispatch('ev', 9); print(k.log, d.is_handler(k), d._events, d._handlers)

sec('C03 handler whose __events__ instance-level differs / unhashable? skip')

sec('C03 remove handler not registered')
try:
    d.remove_handler(K()); print('ok no raise')
except Exception as ex: print('raise', repr(ex))

sec('C03 add_handler from inside a callback of same event')
@event_handler('ev')
class Adder:
    def __init__(s, d): s.d=d; s.new=[]
    def ev(s,*a,**k):
        n = K(); s.new.append(n); s.d.add_handler(n)
d = EventDispatcher(); ad = Adder(d); d.add_handler(ad)
d.dispatch('ev', 1)
print('new handlers received during same dispatch?', [n.log for n in ad.new])

sec('C04 nested disable during release (with alarm)')
@event_handler('ev')
class Dis:
    def __init__(s, d): s.d=d; s.log=[]
    def ev(s,i):
        s.log.append(i)
        if i==0 and len(s.log)==1: s.d.dispatch_enabled=False
        if len(s.log) > 20: raise TimeoutError('runaway')
d = EventDispatcher(); h = Dis(d); d.add_handler(h)
d.dispatch_enabled=False
d.dispatch('ev',0); d.dispatch('ev',1)
def onalarm(*a): raise TimeoutError('hang')
signal.signal(signal.SIGALRM, onalarm); signal.alarm(3)
try:
    d.dispatch_enabled=True; print('returned', h.log, d._event_queue, d.dispatch_enabled)
except TimeoutError as ex: print('TIMEOUT', ex, h.log[:10], len(d._event_queue))
signal.alarm(0)

sec('C04 event with no listener at dispatch time while disabled, listener added later')
d = EventDispatcher(); k=K(); d.dispatch_enabled=False; d.dispatch('ev', 1); d.add_handler(k); d.dispatch_enabled=True; print(k.log)
sec('C04 listener at dispatch time removed before release')
d = EventDispatcher(); k=K(); d.add_handler(k); d.dispatch_enabled=False; d.dispatch('ev', 1); d.remove_handler(k); d.dispatch_enabled=True; print(k.log)

sec('C07 processors')
class P0(Processor):
    def process(s, dt): pass
class P1(Processor):
    priority = 5
    def process(s, dt): pass
w = World(); p=P1(); w.add_processor(p, priority=0); print(p.priority, P1.priority)
p2 = P1(); w.add_processor(p2); print([id(x)==id(p2) for x in w.processors], p2.priority)

sec('C09 kill then start')
cp = CoroutineProcessor()
log=[]
def co():
    log.append('a'); yield
    log.append('b'); yield
    log.append('c')
g = co(); cp.start(g); cp.process(1); cp.kill(g)
try:
    cp.start(g); print('restarted; state', cp.state(g))
    for i in range(4):
        cp.process(1); print('frame', i, log, cp.state(g))
except Exception as ex: print('EXC', repr(ex)); traceback.print_exc()

sec('C09 kill waiting then restart')
cp = CoroutineProcessor(); log=[]
def co2():
    log.append('a'); yield 5
    log.append('b'); yield
g = co2(); cp.start(g); cp.process(1); print(cp.state(g)); cp.kill(g); print(cp.state(g))
for i in range(7): cp.process(1)
print(log, cp.state(g), cp._generators, cp._wait_queue, cp._kill_queue)

sec('C09 release of finished generator')
cp = CoroutineProcessor()
def co3(): yield
g = co3(); r = weakref.ref(g); cp.start(g); del g
cp.process(1); cp.process(1); gc.collect(); print('alive after finish frame?', r() is not None)
def co4():
    while True: yield
g = co4(); r = weakref.ref(g); p = cp.start(g); cp.process(1); cp.kill(g); del g; del p; gc.collect(); print('alive after kill before process', r() is not None); cp.process(1); gc.collect(); print('after process', r() is not None)
