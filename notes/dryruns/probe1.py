import desper, gc, weakref, traceback
from desper import World, event_handler, Processor

class A: pass
class B(A): pass
class C(A): pass
class D(B, C): pass

def sec(t): print('\n###', t)

sec('C01a replace forgets entity')
w = World()
e = w.create_entity(A())
w.add_component(e, A())
print('get(A)=', w.get(A), 'has', w.has_component(e, A), 'comps', w.get_components(e), '_components', w._components)

sec('C01b auto id collides with explicit id')
w = World()
w.create_entity(A(), entity_id=1)
e = w.create_entity(B())
print('auto id', e, 'components of 1:', w.get_components(1))

sec('C01c create_entity() with no components')
w = World()
e = w.create_entity()
print(e, w.entity_exists(e), w.entities)

sec('C02 clear: on_remove? handlers?')
@event_handler('on_add', 'on_remove', 'probe')
class H:
    def __init__(s): s.log=[]
    def on_add(s, e, w): s.log.append(('add', e))
    def on_remove(s, e, w): s.log.append(('remove', e))
    def probe(s, *a): s.log.append(('probe',)+a)
w = World()
h = H(); e = w.create_entity(h)
w.clear()
w.dispatch('probe', 1)
print('after clear log', h.log, 'is_handler', w.is_handler(h), 'world is handler of itself', w.is_handler(w))
h2 = H()
w.dispatch_enabled = False
e = w.create_entity(h2)
w.dispatch_enabled = True
print('after reuse, h2 log', h2.log)

sec('C02 delete immediate')
w = World(); h = H(); e = w.create_entity(h)
w.delete_entity(e, immediate=True)
w.dispatch('probe', 2)
print(h.log, w.is_handler(h))

sec('C02 create_entity on existing id same type')
w = World(); h = H(); h2 = H(); e = w.create_entity(h)
w.create_entity(h2, entity_id=e)
w.dispatch('probe', 3)
print('h', h.log, 'h2', h2.log, w.get(H))

sec('C04 exception during release')
from desper import EventDispatcher
@event_handler('ev')
class R:
    def __init__(s): s.log=[]; s.fail_at=None
    def ev(s, i):
        s.log.append(i)
        if i == s.fail_at:
            s.fail_at=None
            raise RuntimeError('boom')
d = EventDispatcher(); r = R(); d.add_handler(r); r.fail_at = 1
d.dispatch_enabled = False
for i in range(3): d.dispatch('ev', i)
try: d.dispatch_enabled = True
except RuntimeError: print('raised')
print('log', r.log, 'queue', d._event_queue)
d.dispatch_enabled = True
print('log after 2nd enable', r.log)

sec('C05 delete then remove last comp')
w = World(); e = w.create_entity(A()); w.delete_entity(e); w.remove_component(e, A)
for i in range(2):
    try: w.process(1); print('ok')
    except Exception as ex: print('process raised', repr(ex))

sec('C06 diamond')
w = World(); d_ = D(); e = w.create_entity(d_)
print(w.get(A))

sec('C10 dead handler mid-dispatch')
@event_handler('on_update')
class Killer:
    def __init__(s, w, victim_entity): s.w=w; s.v=victim_entity
    def on_update(s, dt):
        s.w.remove_component(s.v, Victim)
@event_handler('on_update')
class Victim:
    def on_update(s, dt):
        assert s is not None
bad=0
for i in range(50):
    w = World()
    ve = w.create_entity(Victim())
    ke = w.create_entity(Killer(w, ve))
    try: w.dispatch('on_update', 1.0)
    except Exception as ex: bad+=1; last=ex
print('bad', bad, 'of 50', repr(last) if bad else '')
