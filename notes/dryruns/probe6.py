import desper, sys, gc
from desper import *
def sec(t): print('\n###', t)

@event_handler('probe')
class OnlyProbe:
    def __init__(s): s.log=[]
    def probe(s,*a): s.log.append(a)

sec('C02e remove handler-without-on_remove on disabled world')
w = World(); c = OnlyProbe(); e = w.create_entity(c)
w.dispatch_enabled = False
w.remove_component(e, OnlyProbe)
try: w.dispatch_enabled = True; print('ok')
except Exception as ex: print('EXC on enable', repr(ex))

sec('C02d deferred delete leaves handler without on_remove registered')
w = World(); c = OnlyProbe(); e = w.create_entity(c); w.delete_entity(e); w.process(1)
w.dispatch('probe', 1); print(c.log, w.is_handler(c), w.get_components(e))

sec('C02 processor without on_remove on disabled world')
@event_handler('probe')
class PP(Processor):
    def process(s, dt): pass
    def probe(s,*a): pass
w = World(); w.add_processor(PP()); w.dispatch_enabled=False; w.remove_processor(PP)
try: w.dispatch_enabled = True; print('ok')
except Exception as ex: print('EXC on enable', repr(ex))

sec('C02 postponed order + on disabled world replaced comp')
@event_handler('on_add','on_remove')
class AR:
    log=[]
    def __init__(s,n): s.n=n
    def on_add(s,e,w): AR.log.append(('add',s.n,e))
    def on_remove(s,e,w): AR.log.append(('rem',s.n,e))
w = World(); w.dispatch_enabled=False
e = w.create_entity(AR(1)); w.add_component(e, AR(2)); w.remove_component(e, AR); 
w.dispatch_enabled=True; print(AR.log)

sec('sys.monitoring bound on dispatch calls')
from desper.events import EventDispatcher
mon = sys.monitoring
TOOL = 3
mon.use_tool_id(TOOL, 'verif')
count = 0
class Runaway(BaseException): pass
def on_start(code, off):
    global count
    count += 1
    if count > 1000: raise Runaway('dispatch called >1000 times')
mon.register_callback(TOOL, mon.events.PY_START, on_start)
mon.set_local_events(TOOL, EventDispatcher.dispatch.__code__, mon.events.PY_START)
@event_handler('ev')
class Dis:
    def __init__(s, d): s.d=d; s.log=[]
    def ev(s,i):
        s.log.append(i)
        if len(s.log)==1: s.d.dispatch_enabled=False
d = EventDispatcher(); h = Dis(d); d.add_handler(h)
d.dispatch_enabled=False; d.dispatch('ev',0); d.dispatch('ev',1)
try:
    d.dispatch_enabled=True; print('returned')
except Runaway as ex: print('BOUND HIT', ex, 'queue len', len(d._event_queue))
mon.set_local_events(TOOL, EventDispatcher.dispatch.__code__, 0)
mon.free_tool_id(TOOL)
