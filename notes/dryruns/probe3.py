import desper, gc, weakref, traceback, os, tempfile
from desper import *

def sec(t): print('\n###', t)
class H(Handle):
    n=0
    def __init__(s, v=None): s.v=v; s.loads=0
    def load(s): s.loads+=1; return s.v

sec('C11 intermediate parent/key')
m = ResourceMap(); h = H(1); m['a/b/c'] = h
print('h.parent is m.maps[a].maps[b]', h.parent is m.maps['a'].maps['b'], h.key)
print('b.parent', m.maps['a'].maps['b'].parent, m.maps['a'].maps['b'].key, 'a.parent', m.maps['a'].parent, m.maps['a'].key)

sec('C11 get default vs [] KeyError')
for k in ['a', 'a/b', 'a/b/c', 'x', 'a/x', 'a/b/c/d', '', 'a/', '/a']:
    g = m.get(k, 'DEF')
    try: v = m[k]; r='ok'
    except KeyError: r='KeyError'
    except Exception as ex: r=repr(ex)
    print(repr(k), 'get->', 'DEF' if g=='DEF' else type(g).__name__, '[]->', r)

sec('C11 handle then map same name & layered')
m = ResourceMap(); h1=H(1); h2=H(2)
m['x']=h1; m.handles.maps.insert(0, {}); m['x']=h2
print('layers', m.handles.maps)
sub = ResourceMap(); m['x'] = sub
print('after assigning map to x: get(x) is sub?', m.get('x') is sub, type(m.get('x')).__name__, m.handles.maps)
m2 = ResourceMap(); m2['x']=H(1); m2.handles.maps.insert(0, {}); m2['x']=H(2); m2['x/y'] = H(3)
print('composite through layered handle: get(x)', type(m2.get('x')).__name__, 'get(x/y)', m2.get('x/y'))

sec('C11 clear with layers')
m = ResourceMap(); h1=H(1); h2=H(2)
m['x']=h1; m.handles.maps.insert(0, {}); m['x']=h2
m.clear(); print('after clear handles', dict(m.handles), m.handles.maps, 'h1.parent', h1.parent, 'h2.parent', h2.parent)

sec('C11 a handle with __eq__? skip; reassign same handle to two places')
sec('C12 falsy values')
for v in [None, 0, [], '', False]:
    h = H(v); m = ResourceMap(); m['a/b']=h
    r1=h(); r2=m['a/b']; r3=m['a']['b']; s=m.get_static_map(); r4=s.a.b; r5=s['a']['b']
    print(repr(v), 'loads', h.loads, 'cached', h.cached, all(x is r1 for x in (r2,r3,r4,r5)))
    h.clear(); print('  after clear cached', h.cached); h(); print('  loads', h.loads)

sec('C17 static map non identifier')
m = ResourceMap(); m['a b/c.d'] = H(5); m['ok'] = H(6); m['class'] = H(7)
s = m.get_static_map()
print(s['a b']['c.d'], s['ok'], s.ok, s['class'], s.get('ok'), m.get('ok') is s.get('ok'))
try: s.foo = 1
except Exception as ex: print('setattr', repr(ex))
try: del s.ok
except Exception as ex: print('delattr', repr(ex))
try: s['a b'].zz = 1
except Exception as ex: print('setattr sub', repr(ex))
try: print(s['nope'])
except Exception as ex: print('absent', repr(ex))
print('absent get', end=' ')
try: print(s.get('nope'))
except Exception as ex: print(repr(ex))
# static with layered
m = ResourceMap(); h1=H(1); h2=H(2); m['x']=h1; m.handles.maps.insert(0, {}); m['x']=h2
s = m.get_static_map(); print('layered static x', s.x, s.get('x') is h2)
# name collisions e.g. 'get', '_handle_names'
m = ResourceMap(); m['get']=H(1)
try:
    s = m.get_static_map(); print('get collides', s.get)
except Exception as ex: print('collision', repr(ex))
# handle and map path in static: s['a/b']?
m = ResourceMap(); m['a/b']=H(1); s=m.get_static_map()
try: print("s['a/b']", s['a/b'])
except Exception as ex: print("s['a/b'] ->", repr(ex))

sec('C20 rotation')
@event_handler('on_position_change','on_rotation_change','on_scale_change')
class L:
    def __init__(s): s.log=[]
    def on_position_change(s,v): s.log.append(('p',v))
    def on_rotation_change(s,v): s.log.append(('r',v))
    def on_scale_change(s,v): s.log.append(('s',v))
t = Transform2D(); l=L(); t.add_handler(l); t.rotation = 370; print(l.log, t.rotation)
t.rotation = -10; print(l.log, t.rotation)
t2 = Transform2D(); print('default pos shared?', t.position is t2.position, Transform2D(rotation=725.5).rotation)
t3 = Transform3D(); t4=Transform3D(); print(t3.position is t4.position)
