import itertools, sys
from desper import *
class Boom(Exception): pass
def run(nev, nh, pos, kind):
    LOG=[]
    d=EventDispatcher()
    state={'count':0,'armed':True}
    def mkh(name):
        @event_handler('ev')
        class Hd:
            def ev(s, tok):
                LOG.append((name,tok))
                state['count']+=1
                if state['armed'] and state['count']==pos+1:
                    state['armed']=False
                    if kind=='raise': raise Boom()
                    if kind=='quit': raise Quit()
                    if kind=='disable': d.dispatch_enabled=False
                    if kind=='dispatch': d.dispatch('ev','new')
        return Hd()
    hs=[mkh(f'h{i}') for i in range(nh)]
    for h in hs: d.add_handler(h)
    d.dispatch_enabled=False
    for i in range(nev): d.dispatch('ev', i)
    assert LOG==[]
    for cycle in range(3):
        try: d.dispatch_enabled=True
        except (Boom,Quit): pass
    # oracle
    per={}
    for name,tok in LOG: per.setdefault(name,[]).append(tok)
    faulting = pos//nh
    for name,toks in per.items():
        base=[t for t in toks if t!='new']
        # events other than faulting exactly once in order
        want=[i for i in range(nev)]
        chk=[t for t in base if t!=faulting] if kind in('raise','quit') else base
        w2=[i for i in want if i!=faulting] if kind in('raise','quit') else want
        if chk!=w2: return ('order/once', name, toks)
        if base.count(faulting)>1: return ('fault dup', name, toks)
        if kind=='dispatch' and toks.count('new')!=1: return ('new', name, toks)
    if len(per)!=nh: return ('missing handler', per)
    return None
bad=0; n=0
for nev in range(1,5):
    for nh in range(1,3):
        for pos in range(nev*nh):
            for kind in ['raise','quit','disable','dispatch']:
                n+=1
                r=run(nev,nh,pos,kind)
                if r: bad+=1; print(nev,nh,pos,kind,r) if bad<4 else None
print('runs',n,'bad',bad)
