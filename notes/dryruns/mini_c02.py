import random, sys
from desper import *
LOG=[]
def mk(shape, n):
    ev={}
    if 'a' in shape: ev['on_add']='added'
    if 'r' in shape: ev['on_remove']='removed'
    if 'p' in shape: ev['probe']='probed'
    class C:
        def __init__(s,uid): s.uid=uid
        def added(s,e,w): LOG.append((s.uid,'add',e,w))
        def removed(s,e,w): LOG.append((s.uid,'rem',e,w))
        def probed(s,t): LOG.append((s.uid,'probe',t))
    C.__name__=f'C{n}_{shape}'
    if ev: C=event_handler(**ev)(C)
    return C
def run(seed):
    r=random.Random(seed); LOG.clear()
    classes=[mk(s,i) for i,s in enumerate(['arp','ap','p','','arp','r'])]
    w=World(); model={}; pending=set(); enabled=True
    postponed=[]  # list of groups: set of (uid,kind,e)
    comps={}; where={}  # uid->comp, uid->entity or None
    uid=0; ops=[]
    def expect(group):
        nonlocal postponed
        group=[g for g in group if g[1] in ('add','rem')]
        return group
    for step in range(r.randint(3,30)):
        LOG.clear()
        op=r.choice(['create','add','add','remove','del','deli','process','toggle','probe','clear'] if step>2 else ['create','add'])
        exp=[]  # expected lifecycle events caused by op (uid,kind,e)
        def attach(e,c):
            T=type(c)
            row=model.setdefault(e,{})
            if T in row:
                old=row[T]; where[old.uid]=None
                if 'on_remove' in getattr(old,'__events__',{}): exp.append((old.uid,'rem',e))
            row[T]=c; where[c.uid]=e
        def detach(e,T):
            c=model[e].pop(T); where[c.uid]=None
            if not model[e]: del model[e]
            if 'on_remove' in getattr(c,'__events__',{}): exp.append((c.uid,'rem',e))
        if op=='create':
            n=r.randint(1,2); cs=[]
            Ts=r.sample(classes,n)
            for T in Ts:
                uid+=1; c=T(uid); comps[uid]=c; cs.append(c)
            e=w.create_entity(*cs)
            if e in model: print('auto id collision'); return False
            for c in cs:
                attach(e,c)
            for c in cs:
                if 'on_add' in getattr(c,'__events__',{}): exp.append((c.uid,'add',e))
            ops.append(('create',e,[c.uid for c in cs]))
        elif op=='add':
            if not model and r.random()<.7: continue
            e=r.choice(list(model) or [77]); T=r.choice(classes); uid+=1; c=T(uid); comps[uid]=c
            w.add_component(e,c); attach(e,c)
            if 'on_add' in getattr(c,'__events__',{}): exp.append((c.uid,'add',e))
            ops.append(('add',e,c.uid))
        elif op=='remove':
            if not model: continue
            e=r.choice(list(model)); T=r.choice(list(model[e])); w.remove_component(e,T); detach(e,T); ops.append(('remove',e,T.__name__))
            if e not in model: pending.discard(e)
        elif op=='del':
            if not model: continue
            e=r.choice(list(model)); w.delete_entity(e); pending.add(e); ops.append(('del',e))
        elif op=='deli':
            if not model: continue
            e=r.choice(list(model)); w.delete_entity(e,immediate=True)
            for T in list(model[e]): detach(e,T)
            pending.discard(e); ops.append(('deli',e))
        elif op=='process':
            w.process(1)
            for e in list(pending):
                if e in model:
                    for T in list(model[e]): detach(e,T)
            pending.clear(); ops.append(('process',))
        elif op=='toggle':
            enabled=not enabled; w.dispatch_enabled=enabled; ops.append(('toggle',enabled))
            if enabled:
                # check postponed groups in order
                got=[(x[0],x[1],x[2]) for x in LOG if x[1] in('add','rem')]
                i=0
                for g in postponed:
                    seg=got[i:i+len(g)]; i+=len(g)
                    if sorted(seg)!=sorted(g): print('seed',seed,'postponed mismatch',ops,'\n got',got,'\n exp',postponed); return False
                if i!=len(got): print('seed',seed,'extra at enable',got[i:]); return False
                postponed=[]
            continue
        elif op=='probe':
            w.dispatch('probe',step); ops.append(('probe',))
            if enabled:
                got=sorted(x[0] for x in LOG if x[1]=='probe')
                want=sorted(u for u,e in where.items() if e is not None and 'probe' in getattr(comps[u],'__events__',{}))
                if got!=want: print('seed',seed,'probe mismatch',got,want,ops); return False
            continue
        elif op=='clear':
            if not enabled: continue
            w.clear()
            for e in list(model):
                for T in list(model[e]): detach(e,T)
            pending.clear(); ops.append(('clear',))
        got=[(x[0],x[1],x[2]) for x in LOG if x[1] in('add','rem')]
        if enabled:
            if sorted(got)!=sorted(exp): print('seed',seed,'enabled mismatch',ops,'\n got',got,'\n exp',exp); return False
        else:
            if got: print('seed',seed,'delivered while disabled',got,ops); return False
            if exp: postponed.append(exp)
        for u,c in comps.items():
            if hasattr(c,'__events__'):
                if w.is_handler(c)!=(where[u] is not None): print('seed',seed,'is_handler mismatch',u,where[u],ops); return False
    return True
bad=0
for seed in range(int(sys.argv[1])):
    if not run(seed): bad+=1
    if bad>=3: break
print('bad',bad)
