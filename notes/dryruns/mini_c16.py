import random, sys, os, tempfile, shutil
import os.path as pt
from desper import *
REC=[]
class FH(Handle):
    def __init__(s, fn, *a, **k): s.fn=fn; s.a=a; s.k=k; REC.append(s)
    def load(s): return s.fn
def run(seed, base):
    r=random.Random(seed); root=pt.join(base,f'c{seed}'); os.makedirs(root)
    names=['a','b','c','d.x','e.txt','f.png','g.tar.gz','h.txt','a.txt']
    dirs=['']; files=[]
    for _ in range(r.randint(0,5)):
        parent=r.choice(dirs); d=pt.join(parent, r.choice(['s','t','u','v.d']))
        if d not in dirs and d not in files and pt.splitext(d)[0] not in [pt.splitext(f)[0] for f in files]:
            os.makedirs(pt.join(root,d),exist_ok=True); dirs.append(d)
    for _ in range(r.randint(0,10)):
        parent=r.choice(dirs); f=pt.join(parent, r.choice(names))
        full=pt.join(root,f)
        if pt.exists(full): continue
        # avoid trimmed key colliding with sibling dir
        if pt.splitext(f)[0] in dirs or f in dirs: continue
        open(full,'w').close(); files.append(f)
    rules=[]
    for _ in range(r.randint(1,3)):
        rp=r.choice(dirs+['missing', 'x/y'] + (files[:1] if r.random()<.1 else []))
        exts=r.choice([(),(),('.txt',),('.txt','.png'),('.zip',),('',)])
        rules.append((rp, exts, (r.randint(0,9),), {'kw':r.randint(0,9)}))
    nest=r.random()<.5; trim=r.random()<.5
    pop=DirectoryResourcePopulator(root, nest_on_conflict=nest, trim_extensions=trim)
    for rp,exts,a,k in rules: pop.add_rule(rp, FH, *a, file_exts=exts, **k)
    m=ResourceMap(); REC.clear()
    isfile_rule=[rp for rp,*_ in rules if pt.isfile(pt.join(root,rp))]
    desc=dict(dirs=dirs,files=files,rules=rules,nest=nest,trim=trim)
    try:
        pop(m)
        if isfile_rule: return ('no ValueError', desc)
    except ValueError:
        if not isfile_rule: return ('unexpected ValueError', desc)
        return None
    except Exception as ex:
        return ('exception', repr(ex), desc)
    # oracle
    required={}   # key -> list of (rule index) candidates
    allowed=set()
    for i,(rp,exts,a,k) in enumerate(rules):
        full=pt.join(root,rp)
        if not pt.isdir(full): continue
        rel=pt.normpath(rp) if rp else '.'
        # dirs on path
        parts=rel.split(os.sep)
        for j in range(1,len(parts)+1): allowed.add('/'.join(parts[:j]))
        for dp,dn,fn in os.walk(full):
            reld=pt.normpath(pt.relpath(dp,root))
            allowed.add(reld.replace(os.sep,'/'))
            for f in fn:
                if exts and pt.splitext(f)[1] not in exts: continue
                key=pt.normpath(pt.join(reld,f)).replace(os.sep,'/')
                if trim: key=pt.splitext(key)[0]
                required.setdefault(key,[]).append((i,pt.join(dp,f)))
                ps=key.split('/')
                for j in range(1,len(ps)): allowed.add('/'.join(ps[:j]))
    for key,cands in required.items():
        h=m.get(key)
        if not isinstance(h,FH): return ('file not reachable',key,desc)
        ok=[c for c in cands if pt.samefile(c[1],h.fn) and h.a==rules[c[0]][2] and h.k==rules[c[0]][3]]
        if not ok: return ('wrong handle',key,h.fn,h.a,h.k,desc)
        ps=key.split('/')
        for j in range(1,len(ps)):
            if not isinstance(m.get('/'.join(ps[:j])),ResourceMap): return ('dir not map',key,desc)
        # nesting
        layers=h.parent.handles.maps
        stack=[l[h.key] for l in layers if h.key in l]
        if nest:
            if len(stack)!=len(cands): return ('nest count',key,len(stack),len(cands),desc)
        else:
            if len(stack)!=1: return ('no-nest layering',key,len(stack),desc)
    def walk_real(mm,pre=()):
        for k in mm.handles: yield '/'.join(pre+(k,)),'h'
        for k,v in mm.maps.items():
            yield '/'.join(pre+(k,)),'m'; yield from walk_real(v,pre+(k,))
    for key,kind in walk_real(m):
        if kind=='h' and key not in required: return ('extra handle',key,desc)
        if kind=='m' and key not in allowed: return ('extra map',key,sorted(allowed),desc)
    return None
base=tempfile.mkdtemp()
try:
    bad=0
    for seed in range(int(sys.argv[1])):
        res=run(seed,base)
        if res:
            bad+=1
            if bad<=4: print(seed,res)
    print('bad',bad)
finally: shutil.rmtree(base)
