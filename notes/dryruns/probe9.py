import random, itertools, warnings, math
from fractions import Fraction as F
from desper.math import *
from desper import *
r = random.Random(7)
def fr(): return F(r.randint(-20,20), r.randint(1,9))
bad=[]
I4 = Mat4(tuple(F(int(i%5==0)) for i in range(16)))
def grid(m,n): return [list(m[i*n:(i+1)*n]) for i in range(n)]
def mm(a,b,n): 
    A=grid(a,n);B=grid(b,n); return tuple(sum(A[i][k]*B[k][j] for k in range(n)) for i in range(n) for j in range(n))
for _ in range(300):
    A=Mat4(tuple(fr() for _ in range(16))); B=Mat4(tuple(fr() for _ in range(16))); C=Mat4(tuple(fr() for _ in range(16)))
    v=Vec4(fr(),fr(),fr(),fr())
    if tuple(A@B)!=mm(A,B,4): bad.append('mat4 matmul')
    if (A@B)@C != A@(B@C): bad.append('assoc')
    if A@Mat4()!=A or Mat4()@A!=A: bad.append('identity')
    if (A@B)@v != B@(A@v): bad.append('vec order')
    if grid(A.transpose(),4)!=[list(x) for x in zip(*grid(A,4))]: bad.append('transpose')
    with warnings.catch_warnings(record=True) as w:
        warnings.simplefilter('always')
        inv=~A
    if w: 
        if inv is not A: bad.append('singular not unchanged')
    else:
        if A@inv!=I4 or inv@A!=I4: bad.append('inverse')
    a=Mat3(tuple(fr() for _ in range(9))); b=Mat3(tuple(fr() for _ in range(9)))
    if tuple(a@b)!=mm(a,b,3): bad.append('mat3 matmul')
    t=Vec3(fr(),fr(),fr())
    T=Mat4.from_translation(t); p=Vec4(fr(),fr(),fr(),F(1))
    if T@p != Vec4(p[0]+t[0],p[1]+t[1],p[2]+t[2],1): bad.append('from_translation')
    if A.translate(t) != A@T: bad.append('translate')
    S=Mat4.from_scale(t)
    if S@p != Vec4(p[0]*t[0],p[1]*t[1],p[2]*t[2],1): bad.append('from_scale')
    u=Vec3(fr(),fr(),fr()); m=abs(fr())
    l=u.limit(m); n2=u.dot(u)
    if n2<=m*m and l!=u: bad.append('vec3 limit changed short')
    if n2>m*m and l is u: bad.append('vec3 limit left long')
    u2=Vec2(fr(),fr()); l=u2.limit(m); n2=u2.dot(u2)
    if n2<=m*m and l!=u2: bad.append('vec2 limit changed short')
    if n2>m*m and l is u2: bad.append('vec2 limit left long')
from collections import Counter
print(Counter(bad))
# singular
with warnings.catch_warnings(record=True) as w:
    warnings.simplefilter('always'); Z=Mat4(tuple(F(0) for _ in range(16))); print('singular:', (~Z) is Z, len(w))
L,R,Bo,T_,N,Fa=[F(x) for x in (-3,5,-2,7,1,10)]
O=Mat4.orthogonal_projection(L,R,Bo,T_,N,Fa)
print(O@Vec4(L,Bo,-N,F(1)), O@Vec4(R,T_,-Fa,F(1)))
# C07 quick model
class Pa(Processor):
    def process(s,dt): LOG.append(s)
Ps=[type(f'P{i}',(Pa,),{'priority':r.choice([0,0,1,-1,5])}) for i in range(5)]
for case in range(2000):
    w=World(); model=[]; seq=0
    for step in range(r.randint(1,12)):
        op=r.random()
        if op<0.6:
            T=r.choice(Ps); p=T(); pr=r.choice([None,None,0,-2,1,5,3])
            w.add_processor(p,pr) if pr is not None else w.add_processor(p)
            model=[m for m in model if type(m[2]) is not T]
            seq+=1; model.append((p.priority if pr is None else pr, seq, p))
        elif op<0.8:
            T=r.choice(Ps); w.remove_processor(T); model=[m for m in model if type(m[2]) is not T]
        LOG=[]; w.process(1)
        exp=[m[2] for m in sorted(model,key=lambda m:(m[0],m[1]))]
        if LOG!=exp or list(w.processors)!=exp: print('C07 mismatch'); break
print('C07 done')
