import random, sys, gc, weakref
from desper import *
S=CoroutineState
def run(seed):
    r=random.Random(seed); cp=CoroutineProcessor(); LOG=[]; frame=[0]
    n=r.randint(1,4)
    scripts=[[r.choice([None,None,0,1,2,0.5,3]) for _ in range(r.randint(0,5))] for _ in range(n)]
    rets=[r.choice([None,0,'v',7]) for _ in range(n)]
    def mk(i):
        def co():
            for k,y in enumerate(scripts[i]):
                LOG.append((frame[0],i,k)); yield y
            LOG.append((frame[0],i,len(scripts[i]))); return rets[i]
        return co()
    gens=[mk(i) for i in range(n)]
    st=[dict(s='new',k=0,wait=None,acc=0) for _ in range(n)]
    prom=[None]*n; ops=[]
    def expect_state(i):
        s=st[i]['s']
        return {'new':S.TERMINATED,'done':S.TERMINATED,'killed':S.TERMINATED,'active':S.ACTIVE,'paused':S.PAUSED}[s]
    for step in range(r.randint(3,25)):
        op=r.choice(['start','kill','process','process','process'])
        i=r.randrange(n)
        if op=='start':
            ops.append(('start',i))
            try:
                p=cp.start(gens[i]); ok=True
            except ValueError: ok=False
            want = st[i]['s'] in ('new','killed','done')
            if ok!=want: return ('start raise',ops)
            if ok:
                prom[i]=p
                if st[i]['s']=='done': st[i]['s']='zombie'
                else: st[i].update(s='active',wait=None)
        elif op=='kill':
            ops.append(('kill',i))
            try: cp.kill(gens[i]); ok=True
            except ValueError: ok=False
            want = st[i]['s'] in ('active','paused','zombie')
            if ok!=want: return ('kill raise',ops)
            if ok: st[i]['s']='killed' if st[i]['s']!='zombie' else 'done'
        else:
            dt=r.choice([0,0.5,1,1,2]); frame[0]+=1; ops.append(('process',dt)); LOG.clear()
            exp=[]
            for j,s in enumerate(st):
                if s['s']=='paused':
                    s['acc']+=dt
                    if s['acc']>=s['wait']: s['s']='active'
                if s['s']=='zombie': s['s']='done'; continue
                if s['s']=='active':
                    exp.append((frame[0],j,s['k']))
                    if s['k']==len(scripts[j]): s['s']='done'; s['ret']=True
                    else:
                        y=scripts[j][s['k']]; s['k']+=1
                        if y is not None and y>0: s.update(s='paused',wait=y,acc=0)
            try: cp.process(dt)
            except Exception as ex: return ('process raised',repr(ex),ops)
            if sorted(LOG)!=sorted(exp): return ('steps',sorted(LOG),sorted(exp),ops)
            for j,s in enumerate(st):
                if s.get('ret') and prom[j] is not None:
                    if prom[j].value!=rets[j]: return ('promise value',j,prom[j].value,rets[j],ops)
                    s['ret']=False
        for j in range(n):
            want=expect_state(j) if st[j]['s']!='zombie' else S.ACTIVE
            if cp.state(gens[j])!=want: return ('state',j,cp.state(gens[j]),want,ops)
            if prom[j] is not None and prom[j].state!=want: return ('promise state',j,ops)
    # leak check: all done/killed flushed after 2 more frames without refs
    for _ in range(12): cp.process(10)
    if cp._generators and not all(st[j]['s'] in('active','paused') or True for j in range(n)): pass
    return None
bad=0
for seed in range(int(sys.argv[1])):
    res=run(seed)
    if res:
        bad+=1
        if bad<=3: print(seed,res)
print('bad',bad)
