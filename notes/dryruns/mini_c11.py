import random, sys
from desper import *
class Hn(Handle):
    def __init__(s,u): s.u=u; s.loads=0
    def load(s): s.loads+=1; return ('val',s.u)
def walk_model(model, pre=()):
    for k,v in model.items():
        yield pre+(k,), v
        if isinstance(v,dict): yield from walk_model(v, pre+(k,))
def run(seed):
    r=random.Random(seed); root=ResourceMap(); model={}; objs={}  # id(model dict)->ResourceMap
    alpha=['a','b','c','']; uid=0; ops=[]
    def mk_value():
        nonlocal uid
        k=r.random(); uid+=1
        if k<.6: return Hn(uid), None
        m=ResourceMap(); sub={}
        if k>.8:
            for i in range(r.randint(1,2)):
                uid+=1; name=r.choice(alpha[:3]); h=Hn(uid); m[name]=h; sub[name]=h
        return m, sub
    for step in range(r.randint(1,20)):
        op=r.random()
        if op<.7:
            depth=r.randint(1,4); comps=[r.choice(alpha if r.random()<.1 else alpha[:3]) for _ in range(depth)]
            key='/'.join(comps); val,sub=mk_value()
            layer = r.random()<.2
            # model
            cur=model
            for c in comps[:-1]:
                if not isinstance(cur.get(c),dict): cur[c]={}
                cur=cur[c]
            if layer:
                # mimic populator: only when existing visible handle at that key in first layer
                tgt=root.get('/'.join(comps[:-1])) if len(comps)>1 else root
                ex=root.get(key)
                if isinstance(val,Handle) and isinstance(ex,Handle) and isinstance(tgt,ResourceMap) and ex is ex.parent.handles.maps[0].get(ex.key):
                    ex.parent.handles.maps.insert(0,{})
                    ops.append(('layer',key))
            root[key]=val; ops.append(('set',key,type(val).__name__, sub and list(sub)))
            cur[comps[-1]] = val if sub is None else dict(sub)
        elif op<.85:
            # clear a random map
            paths=[p for p,v in walk_model(model) if isinstance(v,dict)]
            if paths and r.random()<.7:
                p=r.choice(paths); m=root.get('/'.join(p)); cur=model
                for c in p: cur=cur[c]
                kids=[(k, root.get('/'.join(p+(k,)))) for k in cur]
                m.clear(); cur.clear(); ops.append(('clear',p))
                for k,kid in kids:
                    if kid.parent is not None or kid.key is not None: return ('child not detached',ops)
                if list(m.maps) or any(m.handles.maps): 
                    if any(len(l) for l in m.handles.maps) or m.maps: return ('clear leaves stuff',ops, m.handles.maps)
            else:
                root.clear(); model.clear(); ops.append(('clear',()))
        # sweep
        for p,v in walk_model(model):
            key='/'.join(p)
            g=root.get(key,'DEF')
            if g=='DEF': return ('missing',key,ops)
            if isinstance(v,dict):
                if not isinstance(g,ResourceMap): return ('kind map expected',key,ops)
                if root[key] is not g: return ('[] map',key,ops)
            else:
                if g is not v: return ('wrong handle',key,ops)
                a=root[key]; 
                cur=root
                for c in p: cur=cur[c]
                if not (a is cur is g()): return ('three forms',key,ops)
            # backlinks
            parent = root.get('/'.join(p[:-1])) if len(p)>1 else root
            if g.parent is not parent or g.key!=p[-1]: return ('backlink',key,g.parent,g.key,ops)
        # absent
        for _ in range(5):
            comps=[r.choice(alpha+['z']) for _ in range(r.randint(1,5))]; key='/'.join(comps)
            cur=model; present=True
            for c in comps:
                if isinstance(cur,dict) and c in cur: cur=cur[c]
                else: present=False; break
            g=root.get(key,'DEF')
            try: root[key]; ok=True
            except KeyError: ok=False
            if (g!='DEF')!=ok: return ('get/[] disagree',key,ops)
            if ok!=present: return ('presence',key,present,ops)
        # reachable extras
        def walk_real(m,pre=()):
            for k,v in m.handles.items(): yield pre+(k,)
            for k,v in m.maps.items():
                yield pre+(k,); yield from walk_real(v,pre+(k,))
        real=set(walk_real(root)); mod=set(p for p,_ in walk_model(model))
        if real!=mod: return ('reachable set differs', real^mod, ops)
    return None
bad=0
for seed in range(int(sys.argv[1])):
    res=run(seed)
    if res:
        bad+=1
        if bad<=3: print(seed,res)
print('bad',bad)
