import desper, gc, weakref, traceback, os, tempfile, itertools
from desper import *

def sec(t): print('\n###', t)
LOG=[]
@event_handler('on_switch_in','on_switch_out','on_world_load', 'on_add')
class Comp:
    def __init__(s, name): s.name=name
    def on_add(s, e, w): LOG.append((s.name, id(w)%10000, 'add'))
    def on_switch_in(s, f, t): LOG.append((s.name, id(s.w())%10000 if s.w() else None, 'in', id(f)%10000 if f else None, id(t)%10000))
    def on_switch_out(s, f, t): LOG.append((s.name, 'out', id(f)%10000, id(t)%10000))
    def on_world_load(s, h, w): LOG.append((s.name, id(w)%10000, 'load')); s.w = weakref.ref(w)

class Script(Processor):
    def __init__(s, name, script): s.name=name; s.script=script
    def process(s, dt):
        LOG.append((s.name, id(s.world)%10000, 'process', dt))
        act = next(s.script)
        if act: act(s.world)

class WH(WorldHandle):
    def __init__(s, name, script):
        super().__init__(); s.name=name; s.script=script; s.loads=0
        s.transform_functions.append(s.build)
    def build(s, h, w):
        s.loads += 1
        w.add_processor(Script(s.name, s.script))
        w.create_entity(Comp(s.name))

sec('C13 switch with clear_next')
handles={}
def mk():
    steps = iter([lambda w: desper.switch(handles['B'], clear_next=True, from_world=w), None, lambda w: (_ for _ in ()).throw(Quit())])
    scriptB = iter([None, lambda w: (_ for _ in ()).throw(Quit())])
    handles['A'] = WH('A', steps); handles['B'] = WH('B', scriptB)
mk()
t = itertools.count()
loop = SimpleLoop(lambda: next(t))
loop.switch(handles['A'])
loop.start()
for l in LOG: print(l)
print('loads A', handles['A'].loads, 'B', handles['B'].loads, 'current is B()', loop.current_world is handles['B']())

sec('C13 plain switch')
LOG.clear()
steps = iter([lambda w: desper.switch(handles['B'], from_world=w), None, lambda w: (_ for _ in ()).throw(Quit())])
scriptB = iter([None, lambda w: (_ for _ in ()).throw(Quit())])
handles['A'] = WH('A', steps); handles['B'] = WH('B', scriptB)
t = itertools.count(); loop = SimpleLoop(lambda: next(t)); loop.switch(handles['A']); loop.start()
for l in LOG: print(l)
print('loads', handles['A'].loads, handles['B'].loads)

sec('C14 restart after exception')
class Boom(Processor):
    def __init__(s): s.dts=[]; s.n=0
    def process(s, dt):
        s.dts.append(dt); s.n+=1
        if s.n==2: raise RuntimeError('x')
        if s.n==4: raise Quit()
class BH(Handle):
    def load(s):
        w = World(); w.add_processor(Boom()); return w
h = BH(); t = iter([10, 11, 20, 23, 30, 31, 32]); loop = SimpleLoop(lambda: next(t)); loop.switch(h)
try: loop.start()
except RuntimeError: print('propagated; running=', loop.running, 'last_ts', loop.last_timestamp)
loop.start(); print('dts', h().get_processor(Boom).dts, 'running', loop.running)
loop.start if False else None

sec('C14 dt across switch')
LOG.clear()
steps = iter([None, lambda w: desper.switch(handles['B'], from_world=w), None])
scriptB = iter([None, None, lambda w: (_ for _ in ()).throw(Quit())])
handles['A'] = WH('A', steps); handles['B'] = WH('B', scriptB)
t = iter([0, 1, 3, 7, 15, 31]); loop = SimpleLoop(lambda: next(t)); loop.switch(handles['A']); loop.start()
print([l for l in LOG if 'process' in l])

sec('C16 not a dir')
d = tempfile.mkdtemp(); open(os.path.join(d,'f'),'w').close()
p = DirectoryResourcePopulator(d); p.add_rule('f', Handle)
try: p(ResourceMap())
except Exception as ex: print(repr(ex))
os.makedirs(os.path.join(d,'sub/.hid')); open(os.path.join(d,'sub/.dot'),'w').close(); open(os.path.join(d,'sub/x.txt'),'w').close(); open(os.path.join(d,'sub/.hid/y'),'w').close()
class FH(Handle):
    def __init__(s, fn, *a, **k): s.fn=fn; s.a=a; s.k=k
p = DirectoryResourcePopulator(d); p.add_rule('sub', FH); p.add_rule('', FH); m = ResourceMap(); p(m)
def walk(m, pre=''):
    for k,v in m.handles.items(): print(' H', pre+k, v.fn)
    for k,v in m.maps.items(): print(' M', pre+k); walk(v, pre+k+'/')
walk(m)
