import random, sys, itertools
import desper
from desper import *
LOG=[]
class Stop(Exception): pass
def run(seed):
    r=random.Random(seed); LOG.clear()
    nh=r.randint(2,3); uidc=itertools.count(1)
    handles=[]
    script=[]  # global list of actions, consumed one per process call of first processor
    for _ in range(r.randint(1,6)):
        script.append(('switch', r.randrange(nh), r.random()<.3, r.random()<.3, r.choice(['proc','update'])))
        for _ in range(r.randint(0,2)): script.append(('idle',))
        if r.random()<.4: script.append(('probe_other', r.randrange(nh)))
    script.append(('quit',))
    it=iter(script)
    cur_action=[None]
    def act(world, via):
        a=cur_action[0]
        if a is None or a[0]!='switch' or a[4]!=via: return
        cur_action[0]=None
        LOG.append(('req', world.uid, a))
        desper.switch(handles[a[1]], clear_current=a[2], clear_next=a[3], from_world=world)
    class First(Processor):
        priority=-10
        def process(s,dt):
            LOG.append(('process', s.world.uid))
            a=next(it); cur_action[0]=a
            if a[0]=='quit': raise Quit()
            if a[0]=='probe_other':
                h=handles[a[1]]
                if h.cached:
                    w=h(); LOG.append(('dispatch_probe', w.uid)); w.dispatch('probe', len(LOG))
                cur_action[0]=None
            act(s.world,'proc')
    class Last(Processor):
        priority=10
        def process(s,dt): LOG.append(('last', s.world.uid))
    @event_handler('on_add','on_world_load','on_switch_in','on_switch_out','on_update','probe')
    class Comp:
        def on_add(s,e,w): s.w=w; LOG.append(('add',w.uid))
        def on_world_load(s,h,w): LOG.append(('load',w.uid))
        def on_switch_in(s,f,t): LOG.append(('in',s.w.uid,f.uid if f else None,t.uid))
        def on_switch_out(s,f,t): LOG.append(('out',s.w.uid,f.uid,t.uid))
        def on_update(s,dt): act(s.w,'update')
        def probe(s,tok): LOG.append(('probe',s.w.uid,tok))
    class WH(WorldHandle):
        def __init__(s,i):
            super().__init__(); s.i=i; s.transform_functions.append(s.build)
        def build(s,h,w):
            w.uid=(s.i,next(uidc)); w.add_processor(First()); w.add_processor(OnUpdateProcessor()); w.add_processor(Last()); w.create_entity(Comp())
    handles[:]=[WH(i) for i in range(nh)]
    t=itertools.count(); loop=SimpleLoop(lambda: next(t)); loop.switch(handles[0]); loop.start()
    # ---- oracle over LOG
    log=list(LOG)
    # every 'req' must be followed by: out once in from world (immediately), no 'last' for that frame, then next 'process' is in target handle index and world uid == 'in' event's world; 'in' exactly once between req and that process, in world == processing world; in after that world's add/load if they appear after req
    i=0
    while i<len(log):
        e=log[i]
        if e[0]=='req':
            _,fw,a=e
            j=i+1; seg=[]
            while j<len(log) and log[j][0]!='process': seg.append(log[j]); j+=1
            if j>=len(log): return ('no process after switch',log[i:])
            pw=log[j][1]
            if pw[0]!=a[1]: return ('wrong world runs',e,log[j])
            outs=[x for x in seg if x[0]=='out']; ins=[x for x in seg if x[0]=='in']
            if len(outs)!=1 or outs[0][1]!=fw or outs[0][2]!=fw: return ('out',e,seg)
            if any(x[0]=='last' for x in seg): return ('frame not abandoned',seg)
            if len(ins)!=1 or ins[0][1]!=pw or ins[0][3]!=pw or ins[0][2]!=fw: return ('in',e,seg,pw)
            # load-time before in
            k=seg.index(ins[0])
            if any(x[0] in('add','load') and x[1]==pw for x in seg[k+1:]): return ('in before load-time',seg)
            # freshness
            fresh_needed = a[3] or (a[2] and fw[0]==a[1])
            seen_before=any(x[0]=='process' and x[1]==pw for x in log[:i])
            if fresh_needed and seen_before: return ('not fresh',e,pw)
            if not fresh_needed and fw[0]==a[1] and pw!=fw: return ('self switch changed instance',e,pw)
            i=j; continue
        i+=1
    # probes on left worlds: held until re-entered: a 'probe' for world W must occur when W is current (between its process entries) 
    cur=None
    for x in log:
        if x[0]=='process': cur=x[1]
        if x[0]=='probe':
            pass
    return None
bad=0
for seed in range(int(sys.argv[1])):
    try: res=run(seed)
    except Exception as ex: res=('EXC',repr(ex))
    if res:
        bad+=1
        if bad<=3: print(seed,res)
print('bad',bad)
